#!/usr/bin/env python3
"""Regenerate /verif/MANIFEST.json from checklib/props.py (single source of truth)."""
import json, os, subprocess, sys
sys.path.insert(0, '/verif')
from checklib.props import PROPS

ALL = [f"C{i:02d}" for i in range(1, 21)]

def hook_commits():
    out = subprocess.run(["git", "-C", "/repo", "log", "--format=%H %s"], stdout=subprocess.PIPE, text=True).stdout
    return [l.split()[0] for l in out.splitlines() if "verif feature" in l or l.split(" ", 1)[1].startswith("verif hook") or l.split(" ", 1)[1].startswith("hook:")]

TECH = {
    "C01": "runtime monitoring: totality under catch_unwind + hooked step count per call against the linear bound",
    "C02": "runtime monitoring: input/output observer with exact rational recount of the padding budgets",
    "C03": "runtime monitoring: input/output observer with exact recount of blocked time on a virtual clock",
    "C04": "runtime monitoring: invariant check on every returned action set",
    "C05": "runtime monitoring: trace conformance of the hooked step log against an executable reference semantics, bounded-exhaustive over small machines + random; lock-step determinism check",
    "C06": "runtime monitoring: exhaustive enumeration of the 2^23-value draw space per probability vector, counts compared with exact shares",
    "C07": "runtime monitoring: trace specification over the hooked step log (state, remaining limit)",
    "C08": "runtime monitoring: per-machine counter monitor over the hooked step log",
    "C09": "runtime monitoring: per-call signal delivery monitor over the hooked step log",
    "C10": "runtime monitoring: differential execution (combined vs solo run on the projected history)",
    "C11": "runtime monitoring: round-trip and mutation workload under catch_unwind with a counting allocator measuring peak heap",
    "C12": "runtime monitoring: independent well-formedness predicate vs every validation path over an exhaustive special-value matrix + random",
    "C13": "runtime monitoring: scripted-RNG sampling under catch_unwind, draw budget and heartbeat-supervised workers",
    "C14": "runtime monitoring: offline checker over the simulator's returned event trace",
    "C15": "runtime monitoring: offline matching checker over the simulator's returned event trace",
    "C16": "runtime monitoring: offline checker over merged event trace + hooked action/fire logs (blocking)",
    "C17": "runtime monitoring: offline checker over merged event trace + hooked action/fire logs (action timers)",
    "C18": "runtime monitoring: offline checker over merged event trace + hooked action/fire logs (internal timers)",
    "C19": "runtime monitoring: replay equality, projection and bound checks over returned traces under catch_unwind",
}

checks = []
for pid in ALL:
    if pid not in PROPS:
        continue
    s = PROPS[pid]
    checks.append({
        "property_id": pid,
        "quick_cmd": f"./check {pid} quick",
        "thorough_cmd": f"./check {pid} thorough",
        "evidence_file": f"/verif/evidence/{pid}.json",
        "replay_cmd_template": "./check replay {path}",
        "engine": "vh",
        "level_claimed": {
            "category": "exploration",
            "text": s.get("level_text", "Runtime monitoring: an oracle observes executions of the real code over generated workloads; "
                          "the property held on the executions observed, nothing more."),
            "design_ref": f"DESIGN.md section 4, {pid}",
        },
        "level_note": s.get("level_note", "Trusted: the harness generators and monitors, rustc, the hooks being observation-only. "
                            "Verdict limited to the generated cases; coverage floors make under-reach inconclusive."),
        "technique": s.get("technique", TECH.get(pid, "runtime monitoring: monitor over hooked state / event log")),
    })
na = [{"property_id": pid, "reason": "check not built yet in this session (work in progress; the design claims it)"}
      for pid in ALL if pid not in PROPS]
man = {
    "version": 1,
    "setup_cmd": "./check setup",
    "hooks": {
        "guard": "cargo feature `verif` (crates maybenot and maybenot-simulator), off by default",
        "enable": "the harness crate /verif/harness path-depends on /repo/crates/* with features = [\"verif\"]; "
                  "`cargo build --offline --profile checked` rebuilds from /repo's working tree",
        "baseline_off_cmd": "cd /repo && cargo test --workspace --no-fail-fast --offline",
        "source_commits": hook_commits(),
        "add_only": True,
    },
    "engines": [
        {"name": "vh", "path": "/verif/harness", "serves_properties": [c["property_id"] for c in checks],
         "kind_free_text": "Rust worker: generators, reference semantics and monitors; driven and supervised by /verif/check (python)"},
    ],
    "checks": checks,
    "not_applicable": na,
    "notes": "Technique family: runtime monitoring and sanitizers. Exit 0 held / 1 violated / 2 inconclusive. "
             "Known findings are listed in /verif/known_findings.json.",
}
json.dump(man, open('/verif/MANIFEST.json', 'w'), indent=1)
print("wrote MANIFEST.json:", len(checks), "checks,", len(na), "not_applicable")
