#!/usr/bin/env python3
"""Systematic mutation survey of the checks (complements the seeded changes of section 9).

  mutate.py gen  <n-per-group> <seed>       -> mutation/candidates.json
  mutate.py more <n-per-group> <seed>       -> appends a further batch on lines not mutated before
  mutate.py run  <lanes> [<first> <last>]   -> mutation/results.jsonl (appends; resumes)
  mutate.py report                          -> summary table

A mutant is one small syntactic change (relational / logical / arithmetic operator, constant,
saturating->wrapping, dropped statement) in non-test, non-hook library code. Each mutant is built
in a private lane (scratch worktrees of /repo and /verif under /tmp/mut), must compile, must
pass the existing test suite (otherwise it is not the kind of change this survey is about), and is
then run against the quick checks that cover its file, stopping at the first check that reports a
violation. Nothing is ever applied to /repo itself.
"""
import json
import os
import random
import re
import subprocess
import sys
import time
from multiprocessing import Process

OUT = "/verif/mutation"
LANES = "/tmp/mut"

GROUPS = {
    "framework": (["crates/maybenot/src/framework.rs"], ["C05", "C01", "C07", "C08", "C09", "C02", "C03", "C04", "C10"]),
    "state": (["crates/maybenot/src/state.rs"], ["C06", "C12", "C05"]),
    "action_counter": (["crates/maybenot/src/action.rs", "crates/maybenot/src/counter.rs"], ["C05", "C04", "C08", "C13", "C07"]),
    "dist": (["crates/maybenot/src/dist.rs"], ["C13", "C12"]),
    "machine": (["crates/maybenot/src/machine.rs"], ["C11", "C12"]),
    "simulator": (["crates/maybenot-simulator/src/lib.rs", "crates/maybenot-simulator/src/network.rs", "crates/maybenot-simulator/src/queue.rs",
                   "crates/maybenot-simulator/src/queue_event.rs", "crates/maybenot-simulator/src/queue_peek.rs", "crates/maybenot-simulator/src/delay.rs"],
                  ["C15", "C16", "C17", "C18", "C19", "C14"]),
    "ffi": (["crates/maybenot-ffi/src/lib.rs", "crates/maybenot-ffi/src/ffi.rs"], ["C20"]),
}

CAP = {"framework": 70, "simulator": 70, "state": 20, "action_counter": 15, "dist": 25, "machine": 15, "ffi": 15}

OPS = [
    (r"(?<![<>=!\-])<=(?!=)", "<"), (r"(?<![<>=\-])<(?![<=])", "<="), (r"(?<![<>=!\-])>=(?!=)", ">"), (r"(?<![<>=\-])>(?![>=])", ">="),
    (r"==", "!="), (r"!=", "=="), (r"&&", "||"), (r"\|\|", "&&"),
    (r"(?<=\w) \+ (?=\w)", " - "), (r"(?<=\w) - (?=\w)", " + "), (r"\+= 1\b", "+= 2"), (r"-= 1\b", "-= 0"),
    (r"\btrue\b", "false"), (r"\bfalse\b", "true"), (r"\bsaturating_add\b", "wrapping_add"), (r"\bsaturating_sub\b", "wrapping_sub"),
    (r"\b0\.0\b", "1.0"), (r"\b1\.0\b", "0.5"), (r"\.min\(", ".max("), (r"\.max\(", ".min("), (r"\.is_none\(\)", ".is_some()"), (r"\.is_some\(\)", ".is_none()"),
    (r"\bSome\((\w+)\)\b", r"None /*\1*/"),
    # second batch: slips of the copy-and-paste kind
    (r"\bclient\.", "server."), (r"\bserver\.", "client."), (r"\.round\(\)", ".floor()"), (r"\.round\(\)", ".ceil()"),
    (r"\[mi\]", "[0]"), (r"(?<=\w) \* (?=\w)", " / "), (r"\bSTATE_END\b", "STATE_SIGNAL"), (r"\bSTATE_SIGNAL\b", "STATE_END"),
    (r"\bTimer::Action\b", "Timer::Internal"), (r"\bTimer::Internal\b", "Timer::Action"), (r"\bbypass\b", "replace"), (r"\breplace\b", "bypass"),
    (r"\bcounter_a\b", "counter_b"), (r"\bcounter_b\b", "counter_a"), (r"\bpadding_sent\b", "normal_sent"), (r"\bis_client\b", "!is_client"),
    (r"\bu64::MAX\b", "u32::MAX as u64")
]


def library_lines(path):
    """(index, line) of mutable lines: before #[cfg(test)], not hooks, not comments/attributes/logging."""
    lines = open(path).read().split("\n")
    out = []
    skip_next_block = 0
    in_fmt = None
    for i, l in enumerate(lines):
        if l.strip().startswith("#[cfg(test)]"):
            break
        s = l.strip()
        # Display / Debug formatting is not behaviour any property talks about
        if in_fmt is None and re.search(r"fn fmt\(", l):
            in_fmt = len(l) - len(l.lstrip())
            continue
        if in_fmt is not None:
            if s == "}" and len(l) - len(l.lstrip()) == in_fmt:
                in_fmt = None
            continue
        if '"' in l or "<M, R, T>" in l or "-> " in l or s.startswith("pub fn") or s.startswith("fn ") or s.startswith("impl") or s.startswith("pub(crate) fn"):
            continue
        if 'feature = "verif"' in l:
            skip_next_block = 12
        if skip_next_block > 0:
            skip_next_block -= 1
            if "verif" in l or s.startswith("crate::verif") or s.startswith("#[cfg") or s.endswith(");") or s.endswith("});") or s.endswith("{") or s.endswith(","):
                continue
        if not s or s.startswith("//") or s.startswith("#[") or s.startswith("use ") or "debug!" in l or "verif" in l or s.startswith("///") or s.startswith("pub mod") or "assert" in l or "panic!" in l or "format!" in l or "write!" in l:
            continue
        out.append((i, l))
    return lines, out


def gen(n_per_group, seed, append=False):
    rnd = random.Random(seed)
    cands = json.load(open(f"{OUT}/candidates.json")) if append else []
    taken = {(c["file"], c["line"]) for c in cands}
    for g, (files, checks) in GROUPS.items():
        sites = []
        for f in files:
            lines, lib = library_lines(os.path.join("/repo", f))
            for i, l in lib:
                code = l.split("//")[0]
                for pat, rep in OPS:
                    for m in re.finditer(pat, code):
                        new = code[: m.start()] + m.expand(rep) + code[m.end():] + ("//" + l.split("//", 1)[1] if "//" in l else "")
                        if new != l:
                            sites.append({"group": g, "file": f, "line": i + 1, "old": l, "new": new, "kind": "op"})
                s = l.strip()
                if re.fullmatch(r"(self\.[\w\.\[\]]+|\*?\w[\w\.\[\]]*) (=|\+=|-=) [^;{]+;", s) or re.fullmatch(r"[\w\.]+\.(push|push_sim|insert|fill|clear|pop)\([^;]*\);", s):
                    sites.append({"group": g, "file": f, "line": i + 1, "old": l, "new": l.replace(s, "/* dropped: " + s.replace("*/", "") + " */"), "kind": "drop"})
        rnd.shuffle(sites)
        # at most one mutant per (file, line) to spread the sample
        seen = set(taken)
        picked = []
        for s in sites:
            k = (s["file"], s["line"])
            if k in seen:
                continue
            seen.add(k)
            picked.append(s)
            if len(picked) >= min(n_per_group, CAP.get(g, n_per_group)):
                break
        for s in picked:
            s["checks"] = checks
            cands.append(s)
    for i, c in enumerate(cands):
        c["id"] = i
    os.makedirs(OUT, exist_ok=True)
    json.dump(cands, open(f"{OUT}/candidates.json", "w"), indent=1)
    print(len(cands), "candidates", {g: sum(1 for c in cands if c["group"] == g) for g in GROUPS})


def sh(cmd, cwd, env=None, timeout=3600):
    e = dict(os.environ)
    e.update(env or {})
    # own process group, killed as a whole on timeout: a mutant's test binary that loops for ever must not
    # outlive its cargo parent (it did, in the first survey, and ate ten cores for hours)
    p = subprocess.Popen(cmd, shell=True, cwd=cwd, env=e, stdout=subprocess.PIPE, stderr=subprocess.STDOUT, text=True, start_new_session=True)
    try:
        out, _ = p.communicate(timeout=timeout)
        return p.returncode, out
    except subprocess.TimeoutExpired:
        import signal
        try:
            os.killpg(p.pid, signal.SIGKILL)
        except ProcessLookupError:
            pass
        p.wait()
        return 124, "timeout"


def lane_setup(k):
    d = f"{LANES}/lane{k}"
    if not os.path.isdir(f"{d}/repo"):
        os.makedirs(d, exist_ok=True)
        sh(f"git -C /repo worktree add -q --detach {d}/repo HEAD", "/")
    if not os.path.isdir(f"{d}/verif"):
        sh(f"git -C /verif worktree add -q --detach {d}/verif HEAD", "/")
    sh(f"ln -sfn {d}/repo {d}/verif/repo-link", "/")
    return d


def run_lane(k, ids, jobs):
    d = lane_setup(k)
    repo, verif = f"{d}/repo", f"{d}/verif"
    cands = {c["id"]: c for c in json.load(open(f"{OUT}/candidates.json"))}
    env = {"CARGO_TARGET_DIR": f"{d}/repo-target", "CARGO_NET_OFFLINE": "true", "VERIF_JOBS": str(jobs), "VERIF_C20_LIGHT": "1"}
    for mid in ids:
        c = cands[mid]
        t0 = time.time()
        sh("git checkout -- . && git clean -fdq crates", repo)
        path = os.path.join(repo, c["file"])
        lines = open(path).read().split("\n")
        res = {"id": mid, "group": c["group"], "file": c["file"], "line": c["line"], "old": c["old"].strip(), "new": c["new"].strip(), "kind": c["kind"]}
        if lines[c["line"] - 1] != c["old"]:
            res["status"] = "stale-candidate"
        else:
            lines[c["line"] - 1] = c["new"]
            open(path, "w").write("\n".join(lines))
            rc, out = sh("cargo build --workspace --offline 2>&1 | tail -3", repo, env)
            if "error" in out or rc != 0:
                res["status"] = "does-not-compile"
            else:
                rc, out = sh("cargo test --workspace --no-fail-fast --offline 2>&1 | grep -E '^test result|FAILED|panicked|^error'", repo, env, timeout=900)
                failed = [l for l in out.splitlines() if "FAILED" in l or l.startswith("error") or ("test result" in l and " 0 failed" not in l)]
                if failed or rc == 124:
                    res["status"] = "killed-by-existing-tests"
                else:
                    res["status"] = "survived"
                    res["checks"] = {}
                    for pid in c["checks"]:
                        rc, out = sh(f"./check {pid} quick", verif, {"VERIF_JOBS": str(jobs), "VERIF_C20_LIGHT": "1"}, timeout=3000)
                        sig = re.findall(r"signature: (.+?) \(\d+x\)  ", out)
                        res["checks"][pid] = {"exit": rc, "signatures": sig[:3]}
                        if rc == 1:
                            res["status"] = f"killed-by-{pid}"
                            break
                        if rc not in (0, 1, 2):
                            res["checks"][pid]["tail"] = out[-300:]
        res["wall_s"] = round(time.time() - t0, 1)
        with open(f"{OUT}/results.jsonl", "a") as f:
            f.write(json.dumps(res) + "\n")
        print(f"[lane{k}] #{mid} {c['file']}:{c['line']} {res['status']} ({res['wall_s']}s)", flush=True)
    sh("git checkout -- . && git clean -fdq crates", repo)


def run(lanes, first=None, last=None):
    cands = json.load(open(f"{OUT}/candidates.json"))
    done = set()
    if os.path.exists(f"{OUT}/results.jsonl"):
        for l in open(f"{OUT}/results.jsonl"):
            done.add(json.loads(l)["id"])
    ids = [c["id"] for c in cands if c["id"] not in done and (first is None or first <= c["id"] <= last)]
    random.Random(1).shuffle(ids)
    jobs = max(2, (os.cpu_count() or 8) // lanes)
    procs = []
    for k in range(lanes):
        p = Process(target=run_lane, args=(k, ids[k::lanes], jobs))
        p.start()
        procs.append(p)
    for p in procs:
        p.join()


def report():
    rs = [json.loads(l) for l in open(f"{OUT}/results.jsonl")]
    by = {}
    for r in rs:
        if r["status"] == "survived" and r.get("checks") and all(c["exit"] == 2 for c in r["checks"].values()) and r["group"] != "ffi":
            # the harness did not build: the line belongs to the hook code behind the feature guard
            r["status"] = "hook-code"
        g = by.setdefault(r["group"], {})
        s = r["status"]
        key = "killed by a check" if s.startswith("killed-by-C") else s
        g[key] = g.get(key, 0) + 1
    print("| group | mutants | do not compile (or hook code) | killed by existing tests | reach the checks | killed by a check | survived |")
    print("|---|---|---|---|---|---|---|")
    for g, d in by.items():
        n = sum(d.values())
        reach = d.get("killed by a check", 0) + d.get("survived", 0)
        print(f"| {g} | {n} | {d.get('does-not-compile', 0) + d.get('hook-code', 0)} | {d.get('killed-by-existing-tests', 0)} | {reach} | {d.get('killed by a check', 0)} | {d.get('survived', 0)} |")
    print()
    for r in rs:
        if r["status"] == "survived":
            print(f"SURVIVED #{r['id']} {r['file']}:{r['line']}  `{r['old']}`  ->  `{r['new']}`")


if __name__ == "__main__":
    if sys.argv[1] == "gen":
        gen(int(sys.argv[2]), int(sys.argv[3]))
    elif sys.argv[1] == "more":
        gen(int(sys.argv[2]), int(sys.argv[3]), append=True)
    elif sys.argv[1] == "run":
        a = [int(x) for x in sys.argv[3:5]] if len(sys.argv) >= 5 else [None, None]
        run(int(sys.argv[2]), a[0], a[1])
    elif sys.argv[1] == "report":
        report()
