#!/usr/bin/env python3
"""Confirm a seeded change delivered by a sub-agent in its scratch worktree and store it under
/verif/seeded/<name>/ : (1) existing suite passes with the change, (2) the demonstration fails
with the change and passes without it. Usage: seedtest.py <worktree> <name> <property-id>"""
import json, os, re, shutil, subprocess, sys, glob

wt, name, pid = sys.argv[1], sys.argv[2], sys.argv[3]
seed = os.path.join(wt, "SEED")
env = dict(os.environ, CARGO_TARGET_DIR=os.path.join(wt, "target"), CARGO_NET_OFFLINE="true")

def sh(cmd, **kw):
    p = subprocess.run(cmd, shell=True, cwd=wt, env=env, stdout=subprocess.PIPE, stderr=subprocess.STDOUT, text=True, **kw)
    return p.returncode, p.stdout

def clean():
    sh("git checkout -- crates && git clean -fdq crates")

readme = open(os.path.join(seed, "README.md")).read()
demos = [f for f in glob.glob(os.path.join(seed, "*.rs"))]
m = re.search(r"cargo test -p (\S+)", readme)
crate = sys.argv[4] if len(sys.argv) > 4 else (m.group(1) if m else "maybenot")
crate_dir = {"maybenot": "crates/maybenot", "maybenot-simulator": "crates/maybenot-simulator", "maybenot-ffi": "crates/maybenot-ffi"}[crate]
clean()
res = {}
rc, out = sh("git apply --check SEED/patch.diff")
res["patch_applies"] = rc == 0
def run_demo():
    os.makedirs(os.path.join(wt, crate_dir, "tests"), exist_ok=True)
    names = []
    for d in demos:
        shutil.copy(d, os.path.join(wt, crate_dir, "tests", os.path.basename(d)))
        names.append(os.path.splitext(os.path.basename(d))[0])
    ok = True
    tail = ""
    for n in names:
        feat = " --features parsing" if "parsing" in open(os.path.join(seed, n + ".rs")).read() and crate == "maybenot" else ""
        rc, out = sh(f"cargo test -p {crate} --offline --test {n}{feat} 2>&1 | tail -15")
        passed = "test result: ok" in out
        ok = ok and passed
        tail += out[-600:]
    for d in demos:
        os.remove(os.path.join(wt, crate_dir, "tests", os.path.basename(d)))
    return ok, tail
ok_clean, t1 = run_demo()
res["demo_passes_without_change"] = ok_clean
sh("git apply SEED/patch.diff")
rc, out = sh("cargo test --workspace --no-fail-fast --offline 2>&1 | grep -E '^test result|FAILED|panicked|^error' ")
fails = [l for l in out.splitlines() if "FAILED" in l or l.startswith("error") or ("test result" in l and " 0 failed" not in l)]
npass = sum(int(x) for x in re.findall(r"ok\. (\d+) passed", out))
res["suite_with_change"] = {"passed": npass, "failures": fails[:5]}
ok_patched, t2 = run_demo()
res["demo_fails_with_change"] = not ok_patched
clean()
res["confirmed"] = bool(res["patch_applies"] and ok_clean and not ok_patched and not fails and npass >= 89)
print(json.dumps(res, indent=1))
if not res["confirmed"]:
    print("NOT CONFIRMED\n", t1[-800:], "\n----\n", t2[-800:])
    sys.exit(1)
dst = os.path.join("/verif/seeded", name)
os.makedirs(dst, exist_ok=True)
shutil.copy(os.path.join(seed, "patch.diff"), os.path.join(dst, "patch.diff"))
for d in demos:
    shutil.copy(d, os.path.join(dst, os.path.basename(d)))
shutil.copy(os.path.join(seed, "README.md"), os.path.join(dst, "README.agent.md"))
meta = {"property": pid, "origin": "fresh sub-agent given only the property text and a scratch worktree",
        "needs_to_manifest": "see README.agent.md", "confirmed_in_scratch_worktree": res,
        "demo": {"crate": crate, "files": [os.path.basename(d) for d in demos],
                 "command": f"copy into {crate_dir}/tests/ and run: cargo test -p {crate} --offline --test <name>"},
        "checks_run": {}}
json.dump(meta, open(os.path.join(dst, "meta.json"), "w"), indent=1)
print("stored in", dst)
