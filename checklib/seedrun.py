#!/usr/bin/env python3
"""Run checks against a stored seeded change: apply /verif/seeded/<name>/patch.diff to /repo, run the
quick check of each given property, restore /repo, record the outcome in meta.json.
Usage: seedrun.py <name> <PID> [<PID>...]"""
import json, os, re, subprocess, sys
name, pids = sys.argv[1], sys.argv[2:]
d = f"/verif/seeded/{name}"
def sh(cmd, cwd="/verif"):
    p = subprocess.run(cmd, shell=True, cwd=cwd, stdout=subprocess.PIPE, stderr=subprocess.STDOUT, text=True)
    return p.returncode, p.stdout
rc, out = sh("git status --porcelain --untracked-files=no", cwd="/repo")
if out.strip():
    sys.exit("/repo not clean")
rc, out = sh(f"git apply {d}/patch.diff", cwd="/repo")
if rc != 0:
    sys.exit("patch does not apply: " + out)
meta = json.load(open(f"{d}/meta.json"))
try:
    for pid in pids:
        rc, out = sh(f"./check {pid} quick")
        sigs = []
        for m in re.finditer(r"signature: (.+?) \((\d+)x\)  ", out):
            sigs.append(f"{m.group(1)} ({m.group(2)}x)")
        verdict = {0: "held (MISSED)" if pid == meta["property"] else "held", 1: "VIOLATION reported", 2: "inconclusive"}.get(rc, f"rc={rc}")
        wall = re.search(r"wall=([\d.]+)s", out)
        meta["checks_run"][pid] = {"command": f"./check {pid} quick", "exit": rc, "verdict": verdict, "signatures": sigs[:8], "wall_s": float(wall.group(1)) if wall else None}
        print(name, pid, verdict, sigs[:4])
finally:
    sh("git checkout -- . && git clean -fdq crates", cwd="/repo")
    # the evidence files were rewritten by runs against the seeded change: restore the committed ones
    sh("git checkout -- evidence", cwd="/verif")
json.dump(meta, open(f"{d}/meta.json", "w"), indent=1)
