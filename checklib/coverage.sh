#!/bin/sh
# Line coverage of the library code under the quick workloads (a diagnostic, not a registered check):
# builds the harness with -Cinstrument-coverage on the nightly toolchain in a scratch target dir,
# runs two of 32 shards of every worker and prints llvm-cov's per-file report and the uncovered lines.
set -e
T=${1:-/tmp/cov}
B=$(rustc +nightly --print sysroot)/lib/rustlib/x86_64-unknown-linux-gnu/bin
mkdir -p $T/raw
(cd /verif/harness && CARGO_TARGET_DIR=$T/target RUSTFLAGS="-Cinstrument-coverage" cargo +nightly build --offline --profile checked 2>&1 | tail -1)
for w in c01 c02 c03 c04 c05 c05x c06 c07 c08 c09 c10 c11 c12 c13 c14 c15 c16 c17 c18 c19 c20; do
  for sh in 0 1; do
    LLVM_PROFILE_FILE=$T/raw/$w-$sh-%p.profraw timeout 900 $T/target/checked/vh $w --seed 1 --tier quick --shard $sh --nshards 32 >/dev/null 2>&1 &
  done
done
wait
$B/llvm-profdata merge -sparse $T/raw/*.profraw -o $T/all.profdata
$B/llvm-cov report $T/target/checked/vh -instr-profile=$T/all.profdata --ignore-filename-regex='(registry|rustc|/verif/harness)' | grep -E "crates/|TOTAL|Filename"
$B/llvm-cov export $T/target/checked/vh -instr-profile=$T/all.profdata --ignore-filename-regex='(registry|rustc|/verif/harness)' -format=lcov > $T/all.lcov
python3 - $T/all.lcov <<'P'
import sys, collections
cur = None; miss = collections.defaultdict(list)
for l in open(sys.argv[1]):
    l = l.strip()
    if l.startswith('SF:'): cur = l[3:]
    elif l.startswith('DA:'):
        n, c = l[3:].split(',')[:2]
        if int(c) == 0: miss[cur].append(int(n))
for f, ls in sorted(miss.items()):
    rng = []
    for n in ls:
        if rng and n == rng[-1][1] + 1: rng[-1][1] = n
        else: rng.append([n, n])
    print(f.split('crates/')[-1], [(a, b) if a != b else a for a, b in rng])
P
echo "scratch files in $T (remove when done)"
