#!/usr/bin/env python3
"""Validate MANIFEST.json and evidence files against the schemas (uses the tooling venv)."""
import json, sys, glob
import jsonschema
ok = True
man = json.load(open('/verif/MANIFEST.json'))
try:
    jsonschema.validate(man, json.load(open('/root/.vp/MANIFEST.schema.json')))
    print("MANIFEST ok:", len(man['checks']), "checks,", len(man.get('not_applicable', [])), "not applicable")
except Exception as e:
    ok = False; print("MANIFEST INVALID", e)
sch = json.load(open('/root/.vp/EVIDENCE.schema.json'))
for p in sorted(glob.glob('/verif/evidence/*.json')):
    try:
        jsonschema.validate(json.load(open(p)), sch); print("ok", p)
    except Exception as e:
        ok = False; print("INVALID", p, str(e)[:300])
sys.exit(0 if ok else 1)
