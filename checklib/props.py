"""Per-property configuration of the driver: workers, coverage floors, rule texts."""

EXTRA_SETUP = []

COMMON_ASSUMPTIONS = [
    "verdict covers only the executions this run produced (generated machines, histories, clocks, RNG streams)",
    "hooks (cargo feature verif) only observe; the checked profile differs from release by overflow-checks and debug-assertions",
]

PROPS = {
    "C01": {
        "workers": ["c01"],
        "rule": "a case = 0..5 generated machines + fractions + RNG script + clock + a history of 1..120 "
                "trigger_events calls; non-trivial when at least one action was returned and at least one internal "
                "event (LimitReached, CounterZero, Signal) was delivered; distinct by hash of machines and history",
        "floors": None,
        "assumptions": COMMON_ASSUMPTIONS + [
            "std::time::Instant offsets stay below 2^45 microseconds (beyond that Duration arithmetic in caller code overflows)",
            "Binomial distributions are excluded when the RNG carries a scripted extreme prefix (see C13 known finding)",
        ],
    },
    "C05": {
        "workers": ["c05x", "c05"],
        "rule": "worker c05x: a case = one family of 1-3 small dyadic machines explored depth-first over all call "
                "histories up to the depth bound and over every outcome of every draw; non-trivial and counted when "
                "its whole tree was closed within the node budget. worker c05: a case = 1-5 generated machines + a "
                "history of 5-200 calls (batches 0-8) run on two instances, a clone and the reference semantics; "
                "non-trivial when actions were returned and LimitReached/CounterZero/Signal occurred; distinct by "
                "hash of machines and history",
        "floors": {
            "quick": {"families_closed": 100, "transitions": 1000000, "calls": 1000000,
                      "rule:limit_reached": 20000, "rule:counter_zero": 2000, "rule:signal_rounds": 10000,
                      "rule:signal_second_round": 500, "rule:counter_zero_took_precedence": 300,
                      "rule:denied_padding_budget": 5000, "rule:denied_blocking_budget": 5000,
                      "rule:to_end": 2000, "rule:counter_saturated_hi": 2000, "rule:time_backwards": 50000},
            "thorough": {"families_closed": 500, "transitions": 100000000, "calls": 50000000,
                         "rule:limit_reached": 1000000, "rule:counter_zero": 100000, "rule:signal_rounds": 500000},
        },
        "exhaustive_key": None,
        "assumptions": COMMON_ASSUMPTIONS + [
            "reference semantics = DESIGN.md section 3 (R1-R14), written from the property statements and the crate documentation",
            "random choices are taken from the step log and only checked against the declared support; their "
            "distribution is C06's subject",
            "exhaustive exploration represents each dyadic outcome class of a draw by its left end point k/4",
        ],
    },
    "C02": {
        "workers": ["c02"],
        "rule": 'a case = 1-4 generated machines (padding-heavy, budgets from {0,1,2,5,1000}, fractions from {0,1/4,1/3,1/2,1,..}) + framework fraction + a history of 10-250 single-event calls biased to NormalSent/PaddingSent (boundary walks); 1 in 64 cases is a directed two-machine shape; non-trivial when at least one SendPadding was returned with the packet budget exhausted (so a fraction clause decided); distinct by hash of machines and history',
        "floors": None,
        "assumptions": COMMON_ASSUMPTIONS + ["the predicate is evaluated with exact rational arithmetic; the framework's f64 division is monotone, so it can only be stricter than the exact predicate", 'multi-event batches are covered through C05'],
    },
    "C03": {
        "workers": ["c03"],
        "rule": 'a case = 1-4 generated machines (blocking-heavy, budgets from {0,1,1e3,1e6,max}, fractions) + framework fraction + 10-250 single-event calls with BlockingBegin(any id)/BlockingEnd placed arbitrarily and virtual time steps {0,1,small,large,backwards}; non-trivial when a BlockOutgoing was returned with the time budget exhausted; distinct by hash of machines and history',
        "floors": None,
        "assumptions": COMMON_ASSUMPTIONS + ['virtual clock in integer microseconds, kept below 2^52 so that u64->f64 conversions in the framework are exact and its division can only be stricter than the exact predicate', 'std::time::Instant is exercised by C01 and C20, not here (as_secs_f64 rounding makes the share inexact at the last ulp)'],
    },
    "C04": {
        "workers": ["c04"],
        "rule": 'a case = 0-5 generated machines (heavy-tailed/unbounded timeout and duration distributions, END reachable) + 5-200 calls with batches of 0-16 events; non-trivial when actions were returned and either a machine had ended before some call or a value was clamped to one day; distinct by hash of machines and history',
        "floors": None,
        "assumptions": COMMON_ASSUMPTIONS + ['END is read from the hook snapshot taken before each call'],
    },
    "C07": {
        "workers": ["c07"],
        "rule": 'a case = 1-4 generated machines with limited actions of the three limitable kinds (constant and sampled limits) + 10-200 calls (batches 0-8); 1 in 32 is a directed limit-0/1/2 machine; non-trivial when a stay reached remaining limit zero; distinct by hash of machines and history',
        "floors": None,
        "assumptions": COMMON_ASSUMPTIONS + ['monitor tracks only (state, remaining limit) per machine from the step log; the decrement itself is verified at the next delivery or snapshot'],
    },
    "C08": {
        "workers": ["c08"],
        "rule": 'a case = 1-5 generated machines with counter specs on most states (3 operations x unit/sampled/copy, operands around 0,1,2 and u64::MAX; identical twins in 1 of 6 cases) without budgets + 10-200 calls (batches 0-8); non-trivial when a counter crossed from non-zero to zero with an unspent permit; distinct by hash of machines and history',
        "floors": None,
        "assumptions": COMMON_ASSUMPTIONS + ["no budgets or fractions in this workload, so an entered state's action is allowed iff it is a Cancel or the stay's limit is positive (needed for the precedence clause)"],
    },
    "C09": {
        "workers": ["c09"],
        "rule": 'a case = 1-5 generated machines with boosted SIGNAL targets (on external events, LimitReached, CounterZero, Signal) + 10-150 calls (batches 0-8); non-trivial when at least one call contained signalling; distinct by hash of machines and history',
        "floors": None,
        "assumptions": COMMON_ASSUMPTIONS + ['a signal target carried over from the previous call (the lone signaller signalled again in the second round) counts as signalled by its source in the next call'],
    },
    "C10": {
        "workers": ["c10"],
        "rule": 'a case = 2-5 deterministic machines (probability-1 transitions, constant distributions, no SIGNAL targets; twins in 1 of 3 cases), framework fractions 0, + 10-150 calls (batches 0-8), every machine compared with a solo run on the projected history after every call; non-trivial when in some call two or more machines scheduled/withdrew/handled an internal event; distinct by hash of machines and history',
        "floors": None,
        "assumptions": COMMON_ASSUMPTIONS + ['the solo run maps events addressed to neighbours to an unknown id; blocking state and time are shared by construction'],
    },
}

# Coverage floors (quick): a quarter of what the workload reaches on the unchanged tree; a run that
# observes less is inconclusive. Thorough floors are ten times the quick ones.
QUICK_FLOORS = {
    "C01": {
        "actions_returned": 600000,
        "calls": 3000000,
        "calls_backwards_time": 300000,
        "calls_with_1000+_events": 9000,
        "calls_with_unknown_id": 500000,
        "calls_zero_step": 700000,
        "cases_scripted_rng_prefix": 20000,
        "cases_std_instant": 10000,
        "cases_virtual_clock": 30000,
        "deliver_counter_zero": 30000,
        "deliver_limit_reached": 1000000,
        "deliver_signal": 200000,
        "deliveries": 100000000,
        "deliveries_with_limit_zero": 20000000,
        "deliveries_with_saturated_counter": 5000000
    },
    "C02": {
        "calls": 9000000,
        "calls_exactly_on_a_fraction_limit": 500000,
        "directed_cases": 1000,
        "padding_actions_decided_by_framework_fraction": 600000,
        "padding_actions_decided_by_machine_fraction": 900000,
        "padding_actions_returned": 1000000,
        "padding_actions_with_budget_exhausted": 1000000,
        "padding_actions_within_packet_budget": 600000
    },
    "C03": {
        "blocking_actions_by_replace_while_active": 1000000,
        "blocking_actions_decided_by_a_fraction": 400000,
        "blocking_actions_returned": 2000000,
        "blocking_actions_with_budget_exhausted": 400000,
        "blocking_actions_within_time_budget": 500000,
        "blocking_begin_while_active": 1000000,
        "blocking_end_unpaired": 1000000,
        "calls": 9000000,
        "calls_before_start_time": 300000,
        "calls_exactly_on_a_blocking_fraction": 10000,
        "calls_with_time_regression": 1000000,
        "calls_with_time_regression_while_blocking": 600000,
        "calls_with_zero_elapsed_time": 2000000
    },
    "C04": {
        "actions_blocking": 300000,
        "actions_cancel": 400000,
        "actions_clamped_to_one_day": 400000,
        "actions_padding": 200000,
        "actions_returned": 1000000,
        "actions_timer": 400000,
        "actions_with_asymmetric_flags": 500000,
        "calls": 5000000,
        "calls_returning_2+_actions": 200000,
        "calls_with_a_machine_already_ended": 2000000
    },
    "C07": {
        "actions_returned_with_limit_exhausted_after_call": 100,
        "calls": 7000000,
        "completions_of_other_machines_observed": 2000000,
        "entries_from_another_state": 2000000,
        "entries_with_sampled_limit_zero": 300000,
        "own_completions_at_limit_zero": 800000,
        "own_completions_decrementing": 2000000,
        "own_completions_with_state_change": 1000000,
        "self_transitions": 3000000,
        "stays_that_reached_limit_zero": 400000
    },
    "C08": {
        "both_counters_zeroed_in_one_update": 10000,
        "calls": 7000000,
        "calls_in_which_2+_machines_crossed_zero": 20000,
        "chains_with_counter_zero_and_precedence_decided": 100000,
        "copy_updates": 2000000,
        "copy_updates_with_differing_registers": 1000000,
        "counter_updates": 8000000,
        "counter_zero_action_took_precedence": 100000,
        "entered_state_action_scheduled_after_counter_zero_scheduled_nothing": 30000,
        "saturations_at_max": 200000,
        "saturations_at_zero": 2000000,
        "scheduled_in_a_chain_with_counter_zero": 100000,
        "updates_resulting_in_u64_max": 300000,
        "zero_crossings_after_permit_spent": 10000,
        "zero_crossings_with_permit": 500000
    },
    "C09": {
        "calls": 6000000,
        "calls_with_2+_signallers": 200000,
        "calls_with_a_response_in_the_round": 300000,
        "calls_with_carried_over_signal": 80000,
        "calls_with_lone_signaller_signalling_2+_times": 80000,
        "calls_with_one_signaller": 1000000,
        "signalling_calls": 1000000,
        "signalling_calls_with_ended_machines": 400000,
        "signalling_calls_with_machine_ended_before_call": 400000,
        "signals_on_counter_zero": 10000,
        "signals_on_external_event": 1000000,
        "signals_on_limit_reached": 40000,
        "signals_on_signal": 600000
    },
    "C10": {
        "calls": 6000000,
        "combined_calls_with_2+_machines_active": 900000,
        "solo_comparisons": 20000000
    }
}

for _pid, _spec in PROPS.items():
    if _spec.get("floors") is None:
        q = QUICK_FLOORS.get(_pid, {})
        _spec["floors"] = {"quick": q, "thorough": {k: v * 10 for k, v in q.items()}}
