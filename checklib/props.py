"""Per-property configuration of the driver: workers, coverage floors, rule texts."""

from checklib import c20stages

EXTRA_SETUP = [c20stages.setup]

COMMON_ASSUMPTIONS = [
    "verdict covers only the executions this run produced (generated machines, histories, clocks, RNG streams)",
    "hooks (cargo feature verif) only observe; the checked profile differs from release by overflow-checks and debug-assertions",
]

PROPS = {
    "C01": {
        "workers": ["c01"],
        "rule": "a case = 0..5 generated machines + fractions + RNG script + clock + a history of 1..120 "
                "trigger_events calls; non-trivial when at least one action was returned and at least one internal "
                "event (LimitReached, CounterZero, Signal) was delivered; distinct by hash of machines and history",
        "floors": None,
        "assumptions": COMMON_ASSUMPTIONS + [
            "std::time::Instant offsets stay below 2^45 microseconds (beyond that Duration arithmetic in caller code overflows)",
            "Binomial distributions are excluded when the RNG carries a scripted extreme prefix (see C13 known finding)",
        ],
    },
    "C05": {
        "workers": ["c05x", "c05"],
        "rule": "worker c05x: a case = one family of 1-3 small dyadic machines explored depth-first over all call "
                "histories up to the depth bound and over every outcome of every draw; non-trivial and counted when "
                "its whole tree was closed within the node budget. worker c05: a case = 1-5 generated machines + a "
                "history of 5-200 calls (batches 0-8) run on two instances, a clone and the reference semantics; "
                "non-trivial when actions were returned and LimitReached/CounterZero/Signal occurred; distinct by "
                "hash of machines and history",
        "floors": {
            "quick": {"families_closed": 100, "transitions": 1000000, "calls": 1000000,
                      "rule:limit_reached": 20000, "rule:counter_zero": 2000, "rule:signal_rounds": 10000,
                      "rule:signal_second_round": 500, "rule:counter_zero_took_precedence": 300,
                      "rule:denied_padding_budget": 5000, "rule:denied_blocking_budget": 5000,
                      "rule:to_end": 2000, "rule:counter_saturated_hi": 2000, "rule:time_backwards": 50000},
            "thorough": {"families_closed": 500, "transitions": 100000000, "calls": 50000000,
                         "rule:limit_reached": 1000000, "rule:counter_zero": 100000, "rule:signal_rounds": 500000},
        },
        "exhaustive_key": None,
        "assumptions": COMMON_ASSUMPTIONS + [
            "reference semantics = DESIGN.md section 3 (R1-R14), written from the property statements and the crate documentation",
            "random choices are taken from the step log and only checked against the declared support; their "
            "distribution is C06's subject",
            "exhaustive exploration represents each dyadic outcome class of a draw by its left end point k/4",
        ],
    },
    "C02": {
        "workers": ["c02"],
        "rule": 'a case = 1-4 generated machines (padding-heavy, budgets from {0,1,2,5,1000}, fractions from {0,1/4,1/3,1/2,1,..}) + framework fraction + a history of 10-250 single-event calls biased to NormalSent/PaddingSent (boundary walks); 1 in 64 cases is a directed two-machine shape; non-trivial when at least one SendPadding was returned with the packet budget exhausted (so a fraction clause decided); distinct by hash of machines and history',
        "floors": None,
        "assumptions": COMMON_ASSUMPTIONS + ["the predicate is evaluated with exact rational arithmetic; the framework's f64 division is monotone, so it can only be stricter than the exact predicate", 'multi-event batches are covered through C05'],
    },
    "C03": {
        "workers": ["c03"],
        "rule": 'a case = 1-4 generated machines (blocking-heavy, budgets from {0,1,1e3,1e6,max}, fractions) + framework fraction + 10-250 single-event calls with BlockingBegin(any id)/BlockingEnd placed arbitrarily and virtual time steps {0,1,small,large,backwards}; non-trivial when a BlockOutgoing was returned with the time budget exhausted; distinct by hash of machines and history',
        "floors": None,
        "assumptions": COMMON_ASSUMPTIONS + ['virtual clock in integer microseconds, kept below 2^52 so that u64->f64 conversions in the framework are exact and its division can only be stricter than the exact predicate', 'std::time::Instant is exercised by C01 and C20, not here (as_secs_f64 rounding makes the share inexact at the last ulp)'],
    },
    "C04": {
        "workers": ["c04"],
        "rule": 'a case = 0-5 generated machines (heavy-tailed/unbounded timeout and duration distributions, END reachable) + 5-200 calls with batches of 0-16 events; non-trivial when actions were returned and either a machine had ended before some call or a value was clamped to one day; distinct by hash of machines and history',
        "floors": None,
        "assumptions": COMMON_ASSUMPTIONS + ['END is read from the hook snapshot taken before each call'],
    },
    "C07": {
        "workers": ["c07"],
        "rule": 'a case = 1-4 generated machines with limited actions of the three limitable kinds (constant and sampled limits) + 10-200 calls (batches 0-8); 1 in 32 is a directed limit-0/1/2 machine; non-trivial when a stay reached remaining limit zero; distinct by hash of machines and history',
        "floors": None,
        "assumptions": COMMON_ASSUMPTIONS + ['monitor tracks only (state, remaining limit) per machine from the step log; the decrement itself is verified at the next delivery or snapshot'],
    },
    "C08": {
        "workers": ["c08"],
        "rule": 'a case = 1-5 generated machines with counter specs on most states (3 operations x unit/sampled/copy, operands around 0,1,2 and u64::MAX; identical twins in 1 of 6 cases) without budgets + 10-200 calls (batches 0-8); non-trivial when a counter crossed from non-zero to zero with an unspent permit; distinct by hash of machines and history',
        "floors": None,
        "assumptions": COMMON_ASSUMPTIONS + ["no budgets or fractions in this workload, so an entered state's action is allowed iff it is a Cancel or the stay's limit is positive (needed for the precedence clause)"],
    },
    "C09": {
        "workers": ["c09"],
        "rule": 'a case = 1-5 generated machines with boosted SIGNAL targets (on external events, LimitReached, CounterZero, Signal) + 10-150 calls (batches 0-8); non-trivial when at least one call contained signalling; distinct by hash of machines and history',
        "floors": None,
        "assumptions": COMMON_ASSUMPTIONS + ['a signal target carried over from the previous call (the lone signaller signalled again in the second round) counts as signalled by its source in the next call'],
    },
    "C10": {
        "workers": ["c10"],
        "rule": 'a case = 2-5 deterministic machines (probability-1 transitions, constant distributions, no SIGNAL targets; twins in 1 of 3 cases), framework fractions 0, + 10-150 calls (batches 0-8), every machine compared with a solo run on the projected history after every call; non-trivial when in some call two or more machines scheduled/withdrew/handled an internal event; distinct by hash of machines and history',
        "floors": None,
        "assumptions": COMMON_ASSUMPTIONS + ['the solo run maps events addressed to neighbours to an unknown id; blocking state and time are shared by construction'],
    },
    "C06": {
        "workers": ['c06'],
        "rule": 'a case = one validated probability vector (1-8 targets incl. END/SIGNAL; dyadic at 2^-23, equal shares, coarse dyadic, f32 resolution limits, random) for which State::sample_state is called with every one of the 2^23 values of the uniform draw, plus ~300 framework probes around every outcome boundary; every case is non-trivial; distinct by the f32 bit patterns',
        "floors": None,
        "assumptions": COMMON_ASSUMPTIONS + ['the uniform f32 draw uses the top 23 bits of one 32-bit word (checked: low 9 bits never change the outcome, one word per sample)', 'expected shares are exact rationals from the f32 bit patterns: equality for vectors on the 2^-23 grid, otherwise |count - p*2^23| <= 2 + k/2'],
        "exhaustive_note": "each vector: the whole 2^23 draw space is enumerated",
    },
    "C14": {
        "workers": ['c14'],
        "rule": 'a case = a generated time-sorted trace (1-120 packets, gaps from 0 to 1 s, bursts of identical stamps) x network delay x {sim, sim_advanced} x output filters, no machines; non-trivial when the trace has at least 2 packets; distinct by hash of trace, delay, filters and entry point',
        "floors": None,
        "assumptions": COMMON_ASSUMPTIONS + ['no integration delays; traces are time-sorted; network delay <= 1 s', 'event times are compared as exact nanosecond offsets from the earliest trace event', 'packet rate limit derived from the trace (pps: None)'],
    },
    "C15": {
        "workers": ['c15'],
        "rule": 'a case = trace x delay x optional pps x 1-3 generated machines on client and/or server (all action kinds and flag combinations, small timeouts/durations, counters, signals) x fractions x seed x continue flag, bounded by max_sim_iterations; non-trivial when the peer received padding or a replace re-labelled a queued normal packet; distinct by hash of trace, delay, seed and machines',
        "floors": None,
        "assumptions": COMMON_ASSUMPTIONS + ['no integration delays; traces are time-sorted; network delay <= 1 s', 'event times are compared as exact nanosecond offsets from the earliest trace event'],
    },
    "C16": {
        "workers": ['c16'],
        "rule": 'a case = trace x delay x machines tuned to blocking (generated, and in half of the cases hand-shaped machines with timeouts/durations from {0,1,2,5,10,100,1000,5000} us so that ties, overlaps and zero durations occur) x seed, bounded by max_sim_iterations; the merged timeline (returned events, actions logged at the framework/simulator boundary, timer expiries logged by the hook) is checked offline; non-trivial when the run exercised blocking (blocks started and tunnel-sent packets judged during blocking); distinct by hash of trace, delay, seed and machines',
        "floors": None,
        "assumptions": COMMON_ASSUMPTIONS + ['no integration delays; traces are time-sorted; network delay <= 1 s', 'event times are compared as exact nanosecond offsets from the earliest trace event', 'events with equal stamps are concurrent: membership in a blocking interval is decided by trace order, expiry by stamps with the half-open interval [begin, until)', "the hook's fire log only disambiguates same-instant firings; each entry is validated against the pending action / running timer computed from the boundary log"],
    },
    "C17": {
        "workers": ['c17'],
        "rule": 'a case = trace x delay x machines tuned to action timers (generated, and in half of the cases hand-shaped machines with timeouts/durations from {0,1,2,5,10,100,1000,5000} us so that ties, overlaps and zero durations occur) x seed, bounded by max_sim_iterations; the merged timeline (returned events, actions logged at the framework/simulator boundary, timer expiries logged by the hook) is checked offline; non-trivial when the run exercised action timers (fired actions reported and actions superseded); distinct by hash of trace, delay, seed and machines',
        "floors": None,
        "assumptions": COMMON_ASSUMPTIONS + ['no integration delays; traces are time-sorted; network delay <= 1 s', 'event times are compared as exact nanosecond offsets from the earliest trace event', 'events with equal stamps are concurrent: membership in a blocking interval is decided by trace order, expiry by stamps with the half-open interval [begin, until)', "the hook's fire log only disambiguates same-instant firings; each entry is validated against the pending action / running timer computed from the boundary log"],
    },
    "C18": {
        "workers": ['c18'],
        "rule": 'a case = trace x delay x machines tuned to internal timers (generated, and in half of the cases hand-shaped machines with timeouts/durations from {0,1,2,5,10,100,1000,5000} us so that ties, overlaps and zero durations occur) x seed, bounded by max_sim_iterations; the merged timeline (returned events, actions logged at the framework/simulator boundary, timer expiries logged by the hook) is checked offline; non-trivial when the run exercised internal timers (timers started and ended); distinct by hash of trace, delay, seed and machines',
        "floors": None,
        "assumptions": COMMON_ASSUMPTIONS + ['no integration delays; traces are time-sorted; network delay <= 1 s', 'event times are compared as exact nanosecond offsets from the earliest trace event', 'events with equal stamps are concurrent: membership in a blocking interval is decided by trace order, expiry by stamps with the half-open interval [begin, until)', "the hook's fire log only disambiguates same-instant firings; each entry is validated against the pending action / running timer computed from the boundary log"],
    },
    "C19": {
        "workers": ['c19'],
        "rule": 'a case = trace x delay x pps in {None,1,2,10,1e3,u32::MAX,2^32,2^33+7,usize::MAX} x machines x fractions x seed x stop conditions; per case: two runs from a cloned queue, one from a re-parsed trace, three filtered runs and up to three length-bounded runs; non-trivial when at least 2 events were simulated; distinct by hash of all inputs',
        "floors": None,
        "assumptions": COMMON_ASSUMPTIONS + ['no integration delays; traces are time-sorted; network delay <= 1 s', 'event times are compared as exact nanosecond offsets from the earliest trace event'],
        "stall": 30,
        "stall_confirm": 30,
    },
    "C12": {
        "workers": ["c12"],
        "rule": "the finite matrix (every numeric slot of a machine - fractions, transition probabilities in three vector shapes, every parameter of the 11 distribution families plus start/max in 6 placements - x every special value: NaN, infinities, signed zeros, subnormals, bounds and one ulp beyond each bound; plus structural shapes) is run completely on 5 paths, then random combinations of such values incl. byte-only shapes (present-but-empty transition vectors); every object is non-trivial; distinct by hash of the object",
        "floors": None,
        "exhaustive_key": "matrix_exhaustive",
        "assumptions": COMMON_ASSUMPTIONS + [
            "the well-formedness predicate is written from the property statement and the documented domains of rand_distr 0.4.3, in NaN-safe form; location parameters (Normal mean, SkewNormal location, LogNormal mu) and start/max are unconstrained",
            "only soundness is demanded (accepted => well-formed, all paths agree); validation may reject well-formed objects (counted)",
        ],
    },
    "C13": {
        "workers": ["c13"],
        "rule": "a case = one validated distribution (11 families at admitted parameter corners; start/max from {0, finite, NaN, +-inf, MAX}) sampled under a scripted RNG (prefix of 0-8 extreme words - all zero, all one, alternating, mixed - then a fair stream; thorough: 0-64) directly (3 samples), as counter value, or as timeout+duration+limit of an action inside a framework; non-trivial when the prefix is non-empty; distinct by hash of distribution and prefix",
        "floors": None,
        "stall": 8,
        "stall_confirm": 16,
        "assumptions": COMMON_ASSUMPTIONS + [
            "a sample consuming more than 10^5 random words counts as not returning; loops that consume no words are detected by the heartbeat supervisor (8 s stall, confirmed in isolation for 16 s; the normal cost of a sample is microseconds)",
            "+inf without a finite max is not a violation (consumers clamp; C04 checks that)",
            "inputs for which a replica of rand_distr's inversion loop does not terminate within 5*10^6 iterations are skipped after one of them was executed for real and confirmed to hang (known finding)",
        ],
    },
    "C11": {
        "workers": ["c11"],
        "rule": "a case = one valid generated machine (1-40 states, or 300-3500 states with random parameters so that the compressed form spans up to ~700 KiB) round-tripped through serialize/from_str and driven in lock-step with the original, 2-6 hostile strings derived from it (mutations at the string, zlib and bincode layers, wrong versions, random and non-ASCII text) and 3 strings for the legacy v1 parser (mutated corpus, field-by-field built payloads, random hex); peak heap of every from_str measured by a counting allocator; compression bombs (1 MiB+1 .. 256 MiB, thorough .. 4 GiB) once per run; non-trivial = every case with a valid machine within the size limit; distinct by hash of its string",
        "floors": None,
        "assumptions": COMMON_ASSUMPTIONS + [
            "memory bound for the current format: 1 MiB + 3*65536*size_of::<State>() + 2*len(input), and for zero-filled bombs the peak beyond the decoded input must not vary by more than 64 KiB with the decompressed size",
            "no memory claim is made (or tested) for the legacy v1 parser, as in the property",
        ],
    },
    "C20": {
        "workers": ["c20"],
        "pre_stages": [c20stages.stage_cclient, c20stages.stage_asan, c20stages.stage_miri, c20stages.stage_valgrind_rust],
        "rule": "a case (worker c20) = 0-4 deterministic machines + 1-40 event batches with arbitrary machine ids run through the extern C functions (output buffer between guard slots) and through a Rust Framework, compared field by field, followed by one injected argument fault and a start/stop allocation balance; the same sessions are replayed by a C client built from maybenot.h under ASan+UBSan, by the Rust harness under AddressSanitizer and under Miri (thorough: valgrind memcheck); non-trivial when at least one action was compared; distinct by hash of machines and batches",
        "floors": None,
        "technique": "runtime monitoring: differential oracle + Miri + AddressSanitizer/UBSan/LeakSanitizer (+ valgrind memcheck in thorough) on the unsafe FFI glue",
        "assumptions": COMMON_ASSUMPTIONS + [
            "deterministic machines only (the API seeds its RNG from the OS); blocking limits configured so that real time cannot matter",
            "one fault at a time; the machine-string pointer and the pointer given to maybenot_stop are always valid (documented safety contract)",
            "the staticlib for the C client is built from /repo's own manifest with the guard off",
        ],
    },
}

# Coverage floors (quick): a quarter of what the workload reaches on the unchanged tree; a run that
# observes less is inconclusive. Thorough floors are five times the quick ones, except for counts
# that do not grow with the number of cases.
NOSCALE = {"compression_bombs", "matrix_objects", "families_closed", "miri_sessions", "round_trips_at_the_size_limit",
           "round_trips_of_highly_compressible_machines"}
QUICK_FLOORS = {
    "C01": {
        "actions_returned": 600000,
        "calls": 3000000,
        "calls_backwards_time": 300000,
        "calls_with_1000+_events": 9000,
        "calls_with_unknown_id": 500000,
        "calls_zero_step": 700000,
        "cases_scripted_rng_prefix": 20000,
        "cases_std_instant": 10000,
        "cases_virtual_clock": 30000,
        "deliver_counter_zero": 30000,
        "deliver_limit_reached": 1000000,
        "deliver_signal": 200000,
        "deliveries": 100000000,
        "deliveries_with_limit_zero": 20000000,
        "deliveries_with_saturated_counter": 5000000
    },
    "C02": {
        "calls": 9000000,
        "calls_exactly_on_a_fraction_limit": 500000,
        "directed_cases": 1000,
        "padding_actions_decided_by_framework_fraction": 600000,
        "padding_actions_decided_by_machine_fraction": 900000,
        "padding_actions_returned": 1000000,
        "padding_actions_with_budget_exhausted": 1000000,
        "padding_actions_within_packet_budget": 600000
    },
    "C03": {
        "blocking_actions_by_replace_while_active": 1000000,
        "blocking_actions_decided_by_a_fraction": 400000,
        "blocking_actions_returned": 2000000,
        "blocking_actions_with_budget_exhausted": 400000,
        "blocking_actions_within_time_budget": 500000,
        "blocking_begin_while_active": 1000000,
        "blocking_end_unpaired": 1000000,
        "calls": 9000000,
        "calls_before_start_time": 300000,
        "calls_exactly_on_a_blocking_fraction": 10000,
        "calls_with_time_regression": 1000000,
        "calls_with_time_regression_while_blocking": 600000,
        "calls_with_zero_elapsed_time": 2000000
    },
    "C04": {
        "actions_blocking": 300000,
        "actions_cancel": 400000,
        "actions_clamped_to_one_day": 400000,
        "actions_padding": 200000,
        "actions_returned": 1000000,
        "actions_timer": 400000,
        "actions_with_asymmetric_flags": 500000,
        "calls": 5000000,
        "calls_returning_2+_actions": 200000,
        "calls_with_a_machine_already_ended": 2000000
    },
    "C07": {
        "actions_returned_with_limit_exhausted_after_call": 100,
        "calls": 7000000,
        "completions_of_other_machines_observed": 2000000,
        "entries_from_another_state": 2000000,
        "entries_with_sampled_limit_zero": 300000,
        "own_completions_at_limit_zero": 800000,
        "own_completions_decrementing": 2000000,
        "own_completions_with_state_change": 1000000,
        "self_transitions": 3000000,
        "stays_that_reached_limit_zero": 400000
    },
    "C08": {
        "both_counters_zeroed_in_one_update": 10000,
        "calls": 7000000,
        "calls_in_which_2+_machines_crossed_zero": 20000,
        "chains_with_counter_zero_and_precedence_decided": 100000,
        "copy_updates": 2000000,
        "copy_updates_with_differing_registers": 1000000,
        "counter_updates": 8000000,
        "counter_zero_action_took_precedence": 100000,
        "entered_state_action_scheduled_after_counter_zero_scheduled_nothing": 30000,
        "saturations_at_max": 200000,
        "saturations_at_zero": 2000000,
        "scheduled_in_a_chain_with_counter_zero": 100000,
        "updates_resulting_in_u64_max": 300000,
        "zero_crossings_after_permit_spent": 10000,
        "zero_crossings_with_permit": 500000
    },
    "C09": {
        "calls": 6000000,
        "calls_with_2+_signallers": 200000,
        "calls_with_a_response_in_the_round": 300000,
        "calls_with_carried_over_signal": 80000,
        "calls_with_lone_signaller_signalling_2+_times": 80000,
        "calls_with_one_signaller": 1000000,
        "signalling_calls": 1000000,
        "signalling_calls_with_ended_machines": 400000,
        "signalling_calls_with_machine_ended_before_call": 400000,
        "signals_on_counter_zero": 10000,
        "signals_on_external_event": 1000000,
        "signals_on_limit_reached": 40000,
        "signals_on_signal": 600000
    },
    "C10": {
        "calls": 6000000,
        "combined_calls_with_2+_machines_active": 900000,
        "solo_comparisons": 20000000
    },
    "C06": {
        "draws_enumerated": 5000000000,
        "framework_probes": 100000,
        "probability_one_vectors": 60,
        "vectors_on_the_2^-23_grid_checked_exactly": 300,
        "vectors_summing_to_exactly_one": 200,
        "vectors_with_end_target": 200,
        "vectors_with_residual": 300,
        "vectors_with_signal_target": 200
    },
    "C14": {
        "events_checked": 6000000,
        "runs_filter_client=false_network=false": 40000,
        "runs_filter_client=false_network=true": 40000,
        "runs_filter_client=true_network=false": 20000,
        "runs_filter_client=true_network=true": 20000,
        "runs_via_sim": 40000,
        "runs_via_sim_advanced": 80000,
        "runs_with_client_and_server_event_at_same_instant": 20000,
        "runs_with_zero_delay": 20000,
        "traces_with_burst_of_3+_identical_stamps": 40000
    },
    "C15": {
        "events_checked": 10000000,
        "normal_packets_received": 1000000,
        "packets_delayed_beyond_the_network_delay": 100000,
        "padding_packets_received_by_peer": 400000,
        "runs_cut_by_iteration_bound": 8000,
        "runs_that_ended_by_themselves": 90000,
        "runs_with_aggregate_delay": 10000,
        "runs_with_packets_delayed_beyond_network_delay": 8000,
        "runs_with_padding_received_by_peer": 40000
    },
    "C16": {
        "actions_cancelled": 10000,
        "actions_fired_when_due": 10000000,
        "actions_logged": 20000000,
        "actions_superseded": 4000000,
        "actions_superseded_at_the_instant_they_were_due": 700000,
        "actions_with_zero_timeout": 5000000,
        "block_actions_applied_before_an_earlier_event": 2000,
        "block_actions_shorter_not_replacing": 1000000,
        "block_updates_longer_bypass": 500000,
        "block_updates_longer_nobypass": 500000,
        "block_updates_replace_bypass": 1000000,
        "block_updates_replace_nobypass": 1000000,
        "blocks_ended_at_expiry": 3000000,
        "blocks_started": 5000000,
        "blocks_with_zero_duration": 1000000,
        "bypass_escapes_accepted": 100000,
        "events_checked": 30000000,
        "fired_actions_reported": 10000000,
        "timer_begins_matched": 700000,
        "timer_updates_at_the_instant_of_expiry": 70000,
        "timer_updates_shorter_not_replacing": 60000,
        "timer_updates_with_zero_duration": 100000,
        "timers_cancelled": 1000,
        "timers_ended_at_expiry": 200000,
        "timers_started": 200000,
        "timers_superseded": 400000,
        "tunnel_sent_judged_during_blocking": 200000
    },
    "C17": {
        "actions_cancelled": 50000,
        "actions_fired_when_due": 10000000,
        "actions_logged": 10000000,
        "actions_superseded": 2000000,
        "actions_superseded_at_the_instant_they_were_due": 400000,
        "actions_with_zero_timeout": 3000000,
        "block_actions_shorter_not_replacing": 800000,
        "block_updates_longer_bypass": 300000,
        "block_updates_longer_nobypass": 300000,
        "block_updates_replace_bypass": 700000,
        "block_updates_replace_nobypass": 700000,
        "blocks_ended_at_expiry": 2000000,
        "blocks_started": 3000000,
        "blocks_with_zero_duration": 1000000,
        "bypass_escapes_accepted": 100000,
        "events_checked": 20000000,
        "fired_actions_reported": 10000000,
        "timer_begins_matched": 700000,
        "timer_updates_at_the_instant_of_expiry": 70000,
        "timer_updates_shorter_not_replacing": 50000,
        "timer_updates_with_zero_duration": 100000,
        "timers_cancelled": 7000,
        "timers_ended_at_expiry": 200000,
        "timers_started": 200000,
        "timers_superseded": 400000,
        "tunnel_sent_judged_during_blocking": 100000
    },
    "C18": {
        "actions_cancelled": 9000,
        "actions_fired_when_due": 2000000,
        "actions_logged": 10000000,
        "actions_superseded": 500000,
        "actions_superseded_at_the_instant_they_were_due": 100000,
        "actions_with_zero_timeout": 800000,
        "block_actions_shorter_not_replacing": 100000,
        "block_updates_longer_bypass": 30000,
        "block_updates_longer_nobypass": 30000,
        "block_updates_replace_bypass": 70000,
        "block_updates_replace_nobypass": 70000,
        "blocks_ended_at_expiry": 200000,
        "blocks_started": 300000,
        "blocks_with_zero_duration": 90000,
        "bypass_escapes_accepted": 1000,
        "events_checked": 20000000,
        "fired_actions_reported": 2000000,
        "timer_begins_matched": 8000000,
        "timer_updates_at_the_instant_of_expiry": 1000000,
        "timer_updates_shorter_not_replacing": 500000,
        "timer_updates_with_zero_duration": 1000000,
        "timers_cancelled": 40000,
        "timers_ended_at_expiry": 3000000,
        "timers_started": 3000000,
        "timers_superseded": 4000000,
        "tunnel_sent_judged_during_blocking": 1000
    },
    "C19": {
        "events_simulated": 4000000,
        "filtered_runs_compared": 100000,
        "length_bounded_runs_compared": 60000,
        "run_pairs_compared": 50000,
        "runs_with_explicit_pps": 20000,
        "runs_with_pps_above_u32": 10000
    },
    "C11": {
        "hostile_bincode_level": 10000,
        "hostile_non_ascii": 6000,
        "hostile_random_ascii": 6000,
        "hostile_string_level": 6000,
        "hostile_strings_accepted": 1000,
        "hostile_strings_reaching_the_bincode_layer": 10000,
        "hostile_strings_rejected": 50000,
        "hostile_wrong_version": 6000,
        "hostile_zlib_level": 10000,
        "round_trip_string_bytes": 100000000,
        "round_trips": 10000,
        "v1_strings": 30000,
        "v1_strings_rejected": 20000,
        "round_trips_with_compressed_form_over_32KiB": 300,
        "round_trips_with_compressed_form_over_256KiB": 50,
        "compression_bombs": 3,
        "round_trips_at_the_size_limit": 4,
        "round_trips_of_highly_compressible_machines": 6
    },
    "C12": {
        "matrix_objects": 1000,
        "objects_accepted_by_all_paths": 6000,
        "objects_rejected_by_all_paths": 90000
    },
    "C13": {
        "consumer_counter_value": 10000,
        "consumer_direct_sample": 100000,
        "consumer_framework_timeout_duration_limit": 10000,
        "samples_Beta": 10000,
        "samples_Binomial": 10000,
        "samples_Gamma": 10000,
        "samples_Geometric": 10000,
        "samples_LogNormal": 10000,
        "samples_Normal": 10000,
        "samples_Pareto": 10000,
        "samples_Poisson": 10000,
        "samples_SkewNormal": 10000,
        "samples_Uniform": 9000,
        "samples_Weibull": 10000,
        "samples_fair_stream": 30000,
        "samples_prefix_all_one": 20000,
        "samples_prefix_all_zero": 20000,
        "samples_prefix_alternating": 20000,
        "samples_prefix_mixed_extremes": 20000,
        "samples_returning_+inf_without_finite_max_(consumers_clamp)": 10000
    },
    "C20": {
        "actions_blocking": 40000,
        "actions_cancel": 40000,
        "actions_compared_field_by_field": 100000,
        "actions_padding": 30000,
        "actions_timer": 40000,
        "asan_batches": 100000,
        "asan_sessions": 6000,
        "batches_compared": 300000,
        "batches_with_unknown_machine_ids": 70000,
        "cclient_actions_compared_as_C_sees_them": 8000,
        "cclient_batches": 10000,
        "cclient_sessions": 1000,
        "result_invalid_machine_string": 100,
        "result_not_utf8": 100,
        "result_null_pointer": 100,
        "result_ok": 10000,
        "result_start_framework": 100,
        "start_stop_allocation_balances_checked": 10000,
        "miri_sessions": 40
    }
}

for _pid, _spec in PROPS.items():
    if _spec.get("floors") is None:
        q = QUICK_FLOORS.get(_pid, {})
        _spec["floors"] = {"quick": q, "thorough": {k: v * (1 if k in NOSCALE else 5) for k, v in q.items()}}
