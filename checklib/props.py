"""Per-property configuration of the driver: workers, coverage floors, rule texts."""

EXTRA_SETUP = []

COMMON_ASSUMPTIONS = [
    "verdict covers only the executions this run produced (generated machines, histories, clocks, RNG streams)",
    "hooks (cargo feature verif) only observe; the checked profile differs from release by overflow-checks and debug-assertions",
]

PROPS = {
    "C01": {
        "workers": ["c01"],
        "rule": "a case = 0..5 generated machines + fractions + RNG script + clock + a history of 1..120 "
                "trigger_events calls; non-trivial when at least one action was returned and at least one internal "
                "event (LimitReached, CounterZero, Signal) was delivered; distinct by hash of machines and history",
        "floors": {
            "quick": {"calls": 100000, "deliver_limit_reached": 1000, "deliver_counter_zero": 200,
                      "deliver_signal": 1000, "calls_backwards_time": 1000, "calls_with_unknown_id": 1000,
                      "deliveries_with_saturated_counter": 100, "calls_with_1000+_events": 20},
            "thorough": {"calls": 5000000, "deliver_limit_reached": 50000, "deliver_counter_zero": 10000,
                         "deliver_signal": 50000},
        },
        "assumptions": COMMON_ASSUMPTIONS + [
            "std::time::Instant offsets stay below 2^45 microseconds (beyond that Duration arithmetic in caller code overflows)",
            "Binomial distributions are excluded when the RNG carries a scripted extreme prefix (see C13 known finding)",
        ],
    },
}
