"""Python-side stages of the C20 check: C client under ASan+UBSan (the header/ABI view), the Rust
differential under AddressSanitizer and under Miri, valgrind memcheck in the thorough tier."""
import os
import re
import subprocess
import time
from concurrent.futures import ThreadPoolExecutor

ROOT = os.path.dirname(os.path.dirname(os.path.abspath(__file__)))
TARGET = f"{ROOT}/target"
HARNESS = f"{ROOT}/harness"
REPO = os.path.realpath(f"{ROOT}/repo-link")  # a symlink to /repo (background runs may re-point it to a snapshot)
JOBS = int(os.environ.get("VERIF_JOBS", os.cpu_count() or 4))
ENV = dict(os.environ)
ENV.update({"CARGO_NET_OFFLINE": "true", "RUST_BACKTRACE": "0"})
ASAN_VH = f"{TARGET}/asan/x86_64-unknown-linux-gnu/checked/vh"
VH = f"{TARGET}/checked/vh"


def run(cmd, cwd=None, env=None, timeout=3600):
    e = dict(ENV)
    if env:
        e.update(env)
    try:
        p = subprocess.run(cmd, cwd=cwd, env=e, timeout=timeout, stdout=subprocess.PIPE, stderr=subprocess.STDOUT, text=True)
        return p.returncode, p.stdout
    except subprocess.TimeoutExpired as ex:
        return 124, (ex.stdout or "") if isinstance(ex.stdout, str) else ""


def build_cclient(log):
    """staticlib from /repo's own manifest (guard off) + the C client, ASan/UBSan and plain."""
    t0 = time.time()
    rc, out = run(["cargo", "build", "--release", "-p", "maybenot-ffi", "--offline", "--target-dir", f"{TARGET}/repo-release"], cwd=REPO)
    if rc != 0:
        log(out[-2000:])
        return False
    os.makedirs(f"{TARGET}/cclient", exist_ok=True)
    lib = f"{TARGET}/repo-release/release/libmaybenot_ffi.a"
    base = ["clang", "-O1", "-g", "-fno-omit-frame-pointer", "-I", f"{REPO}/crates/maybenot-ffi", f"{ROOT}/cclient/c20.c", lib, "-lpthread", "-ldl", "-lm"]
    rc1, o1 = run(base + ["-fsanitize=address,undefined", "-fno-sanitize-recover=all", "-o", f"{TARGET}/cclient/c20_asan"])
    rc2, o2 = run(base + ["-o", f"{TARGET}/cclient/c20_plain"])
    if rc1 or rc2:
        log((o1 + o2)[-2000:])
        return False
    log(f"[build] staticlib + C client ok in {time.time() - t0:.1f}s")
    return True


def build_asan(log):
    t0 = time.time()
    rc, out = run(["cargo", "+nightly", "build", "--offline", "--target", "x86_64-unknown-linux-gnu", "--profile", "checked"], cwd=HARNESS,
                  env={"RUSTFLAGS": "-Zsanitizer=address -Cforce-frame-pointers=yes", "CARGO_TARGET_DIR": f"{TARGET}/asan"})
    if rc != 0:
        log(out[-2000:])
        return False
    log(f"[build] ASan harness ok in {time.time() - t0:.1f}s")
    return True


def miri_cmd(seed, cases, shard):
    return (["cargo", "+nightly", "miri", "run", "--offline", "--", "c20-miri", "--seed", str(seed), "--cases", str(cases), "--shard", str(shard)],
            {"MIRIFLAGS": "-Zmiri-disable-isolation", "CARGO_TARGET_DIR": f"{TARGET}/miri"})


def build_miri(log):
    t0 = time.time()
    cmd, env = miri_cmd(1, 0, 0)
    rc, out = run(cmd, cwd=HARNESS, env=env)
    if rc != 0 or "SANITIZER-RUN-OK" not in out:
        log(out[-2000:])
        return False
    log(f"[build] Miri harness ok in {time.time() - t0:.1f}s")
    return True


def setup(sh, log):
    ok = build_cclient(log)
    ok = build_asan(log) and ok
    ok = build_miri(log) and ok
    return ok


REPORT_PATTERNS = [
    (re.compile(r"ERROR: AddressSanitizer: ([a-zA-Z\-]+)"), "asan"),
    (re.compile(r"ERROR: LeakSanitizer: ([a-zA-Z\- ]+)"), "lsan"),
    (re.compile(r"runtime error: ([^\n]{0,60})"), "ubsan"),
    (re.compile(r"error: Undefined Behavior: ([^\n]{0,80})"), "miri-ub"),
    (re.compile(r"error: memory leaked"), "miri-leak"),
    (re.compile(r"error: (unsupported operation[^\n]{0,60})"), "miri-unsupported"),
]


def classify(tool, rc, out):
    """-> (violations, inconclusive) for one process output"""
    viol, inc = [], []
    for line in out.splitlines():
        if line.startswith("MISMATCH "):
            parts = line.split(" ", 2)
            sig = parts[1] if tool != "cclient" else "C20/c-view/" + "-".join(parts[1:]).split(" session=")[0].replace(" ", "-")
            if not sig.startswith("C20/"):
                sig = "C20/" + sig
            viol.append({"sig": sig, "case": -1, "detail": f"[{tool}] {line[:600]}", "witness": {"tool": tool, "output_tail": out[-1500:]}})
            break
    for pat, name in REPORT_PATTERNS:
        m = pat.search(out)
        if m:
            what = m.group(1).strip().replace(" ", "-") if m.groups() else ""
            if name == "miri-unsupported":
                inc.append(f"{tool}: Miri cannot execute this: {what}")
            else:
                viol.append({"sig": f"C20/{tool}/{name}/{what}"[:120], "case": -1, "detail": f"[{tool}] sanitizer report: {m.group(0)[:300]}",
                             "witness": {"tool": tool, "output_tail": out[-3000:]}})
            break
    if rc != 0 and not viol and not inc:
        if rc == 124:
            inc.append(f"{tool}: timed out")
        else:
            viol.append({"sig": f"C20/{tool}/abnormal-exit", "case": -1, "detail": f"[{tool}] exit status {rc}: {out[-500:]}",
                         "witness": {"tool": tool, "output_tail": out[-3000:]}})
    return viol, inc


def stage_cclient(tier, seed, sh, log):
    res = {"obs": {}, "evaluations": 0, "violations": [], "inconclusive": [], "extra": {}}
    if not build_cclient(log):
        res["inconclusive"].append("staticlib / C client build failed")
        return res
    sessions = 4000 if tier == "quick" else 200000
    script = f"{TARGET}/run/c20.script"
    os.makedirs(f"{TARGET}/run", exist_ok=True)
    rc, out = run([VH, "c20-script", "--seed", str(seed), "--cases", str(sessions), "--hashes", script])
    if rc != 0 or "SCRIPT-WRITTEN" not in out:
        res["inconclusive"].append(f"script generation failed: {out[-300:]}")
        return res
    rc, out = run([f"{TARGET}/cclient/c20_asan", script], env={"ASAN_OPTIONS": "detect_leaks=1:halt_on_error=1", "UBSAN_OPTIONS": "halt_on_error=1:print_stacktrace=1"})
    v, i = classify("cclient", rc, out)
    res["violations"] += v
    res["inconclusive"] += i
    m = re.search(r"CCLIENT-DONE sessions=(\d+) batches=(\d+) actions=(\d+) faults=(\d+) mismatches=(\d+) sizeof\(MaybenotAction\)=(\d+)", out)
    if m:
        res["obs"].update({"cclient_sessions": int(m.group(1)), "cclient_batches": int(m.group(2)), "cclient_actions_compared_as_C_sees_them": int(m.group(3)),
                           "cclient_fault_injections": int(m.group(4))})
        res["evaluations"] += int(m.group(1))
        res["extra"]["sizeof_MaybenotAction_in_C"] = int(m.group(6))
    elif not v:
        res["inconclusive"].append("C client did not finish")
    if tier == "thorough":
        small = f"{TARGET}/run/c20.small.script"
        run([VH, "c20-script", "--seed", str(seed + 1), "--cases", "3000", "--hashes", small])
        rc, out = run(["valgrind", "--error-exitcode=9", "--leak-check=full", "--errors-for-leak-kinds=definite,indirect", "-q", f"{TARGET}/cclient/c20_plain", small], timeout=7200)
        if rc == 9 or "ERROR SUMMARY" in out and "ERROR SUMMARY: 0" not in out:
            res["violations"].append({"sig": "C20/valgrind-cclient/report", "case": -1, "detail": out[-800:], "witness": {"output_tail": out[-3000:]}})
        elif rc != 0 and "CCLIENT-DONE" not in out:
            res["inconclusive"].append(f"valgrind run of the C client failed (rc={rc})")
        else:
            res["obs"]["valgrind_cclient_sessions"] = 3000
    return res


def _parallel(cmds):
    with ThreadPoolExecutor(max_workers=JOBS) as ex:
        return list(ex.map(lambda c: run(c[0], cwd=c[1], env=c[2], timeout=c[3]), cmds))


def stage_asan(tier, seed, sh, log):
    res = {"obs": {}, "evaluations": 0, "violations": [], "inconclusive": [], "extra": {}}
    if not build_asan(log):
        res["inconclusive"].append("ASan build failed")
        return res
    total = 24000 if tier == "quick" else 960000
    per = -(-total // JOBS)
    cmds = [([ASAN_VH, "c20-san", "--seed", str(seed), "--cases", str(per), "--shard", str(i)], None,
             {"ASAN_OPTIONS": "detect_leaks=1:halt_on_error=1"}, 7200) for i in range(JOBS)]
    for rc, out in _parallel(cmds):
        v, i = classify("asan", rc, out)
        res["violations"] += v
        res["inconclusive"] += i
        m = re.search(r"SANITIZER-RUN-OK mode=\S+ sessions=(\d+) batches=(\d+) actions=(\d+)", out)
        if m:
            res["obs"]["asan_sessions"] = res["obs"].get("asan_sessions", 0) + int(m.group(1))
            res["obs"]["asan_batches"] = res["obs"].get("asan_batches", 0) + int(m.group(2))
            res["evaluations"] += int(m.group(1))
    res["obs"]["asan_reports"] = sum(1 for v in res["violations"] if "/asan/" in v["sig"])
    return res


def stage_miri(tier, seed, sh, log):
    res = {"obs": {}, "evaluations": 0, "violations": [], "inconclusive": [], "extra": {}}
    if not build_miri(log):
        res["inconclusive"].append("Miri build failed")
        return res
    total = 48 if tier == "quick" else 960
    per = -(-total // JOBS)
    cmds = []
    for i in range(JOBS):
        c, e = miri_cmd(seed, per, i)
        cmds.append((c, HARNESS, e, 7200))
    for rc, out in _parallel(cmds):
        v, i = classify("miri", rc, out)
        res["violations"] += v
        res["inconclusive"] += i
        m = re.search(r"SANITIZER-RUN-OK mode=\S+ sessions=(\d+) batches=(\d+) actions=(\d+)", out)
        if m:
            res["obs"]["miri_sessions"] = res["obs"].get("miri_sessions", 0) + int(m.group(1))
            res["obs"]["miri_batches"] = res["obs"].get("miri_batches", 0) + int(m.group(2))
            res["evaluations"] += int(m.group(1))
    res["obs"]["miri_reports"] = sum(1 for v in res["violations"] if "/miri/" in v["sig"])
    return res


def stage_valgrind_rust(tier, seed, sh, log):
    res = {"obs": {}, "evaluations": 0, "violations": [], "inconclusive": [], "extra": {}}
    if tier != "thorough":
        return res
    rc, out = run(["cargo", "build", "--offline", "--profile", "plain"], cwd=HARNESS, env={"CARGO_TARGET_DIR": TARGET})
    if rc != 0:
        res["inconclusive"].append("plain build failed")
        return res
    cmds = [(["valgrind", "--error-exitcode=9", "--leak-check=full", "--errors-for-leak-kinds=definite,indirect", "-q", f"{TARGET}/plain/vh", "c20-san", "--seed", str(seed),
              "--cases", "400", "--shard", str(i)], None, None, 7200) for i in range(JOBS)]
    for rc, out in _parallel(cmds):
        if rc == 9:
            res["violations"].append({"sig": "C20/valgrind-rust/report", "case": -1, "detail": out[-800:], "witness": {"output_tail": out[-3000:]}})
        elif rc != 0:
            res["inconclusive"].append(f"valgrind run failed (rc={rc}): {out[-200:]}")
        else:
            res["obs"]["valgrind_rust_sessions"] = res["obs"].get("valgrind_rust_sessions", 0) + 400
    return res
