#!/usr/bin/env python3
"""Regenerate the table of seeded changes in DESIGN.md section 9 from seeded/*/meta.json.
   seedtable.py          print the table
   seedtable.py --write  replace the table in /verif/DESIGN.md"""
import json, glob, os, re, sys
rows = []
for d in sorted(glob.glob('/verif/seeded/*/')):
    m = json.load(open(d + 'meta.json'))
    name = os.path.basename(d.rstrip('/'))
    cells = []
    for pid, r in m['checks_run'].items():
        if r['exit'] == 1:
            sig = r['signatures'][0].split(' (')[0] if r['signatures'] else ''
            cells.append(f"{pid} **caught** (`{sig}`)" if sig else f"{pid} **caught**")
        elif r['exit'] == 2:
            cells.append(f"{pid} inconclusive")
        else:
            cells.append(f"{pid} silent")
    esc = lambda s: s.replace('|', '\\|').replace('\n', ' ')
    rows.append(f"| {name} | {esc(m.get('change', ''))} | {esc(m.get('needs_to_manifest', ''))} | {'; '.join(cells)} |")
head = "| seeded change | the change | needs, to manifest | quick checks run against it |\n|---|---|---|---|\n"
table = head + "\n".join(rows) + "\n"
if '--write' in sys.argv:
    p = '/verif/DESIGN.md'
    s = open(p).read()
    a = s.index(head)
    b = a + len(head)
    while s[b:b + 2] == '| ':
        b = s.index('\n', b) + 1
    open(p, 'w').write(s[:a] + table + s[b:])
    print(len(rows), "rows written")
else:
    print(table)
