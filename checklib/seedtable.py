#!/usr/bin/env python3
"""Print the markdown table of seeded changes and which checks caught them (from seeded/*/meta.json)."""
import json, glob, os, re
rows = []
for d in sorted(glob.glob('/verif/seeded/*/')):
    m = json.load(open(d + 'meta.json'))
    name = os.path.basename(d.rstrip('/'))
    readme = open(d + 'README.agent.md').read() if os.path.exists(d + 'README.agent.md') else ''
    patch = open(d + 'patch.diff').read()
    files = sorted(set(re.findall(r'^\+\+\+ b/(\S+)', patch, re.M)))
    caught = []
    for pid, r in m['checks_run'].items():
        tag = 'caught' if r['exit'] == 1 else ('inconclusive' if r['exit'] == 2 else 'silent')
        sig = (': ' + ', '.join(s.split(' (')[0] for s in r['signatures'][:2])) if r['signatures'] else ''
        caught.append(f"{pid} {tag}{sig}")
    rows.append((name, m['property'], ', '.join(os.path.basename(f) for f in files), m.get('summary', ''), '; '.join(caught), m.get('history', '')))
print("| seeded change | property | file | checks run against it (quick tier) | note |")
print("|---|---|---|---|---|")
for r in rows:
    print(f"| {r[0]} | {r[1]} | {r[2]} | {r[4]} | {r[5]} |")
