#!/usr/bin/env python3
"""Process one round of deliveries: seedround.py <dir> <suffix> [ID ...]
For every <dir>/<ID>/SEED: confirm in the scratch worktree (seedtest.py), then run the quick check
of the property (and C05 for framework changes) against it (seedrun.py)."""
import os, re, subprocess, sys
d, suffix = sys.argv[1], sys.argv[2]
ids = sys.argv[3:] or sorted(x for x in os.listdir(d) if re.fullmatch(r"C\d\d", x) and os.path.isdir(f"{d}/{x}/SEED"))
for pid in ids:
    seed = f"{d}/{pid}/SEED"
    patch = open(f"{seed}/patch.diff").read()
    readme = open(f"{seed}/README.md").read() if os.path.exists(f"{seed}/README.md") else ""
    demo_txt = "".join(open(f"{seed}/{f}").read() for f in os.listdir(seed) if f.endswith(".rs"))
    if "maybenot_ffi" in demo_txt or "maybenot-ffi/tests" in readme:
        crate = "maybenot-ffi"
    elif "maybenot_simulator" in demo_txt:
        crate = "maybenot-simulator"
    else:
        crate = "maybenot"
    name = f"{pid}-{suffix}"
    r = subprocess.run(["python3", "/verif/checklib/seedtest.py", f"{d}/{pid}", name, pid, crate], stdout=subprocess.PIPE, stderr=subprocess.STDOUT, text=True)
    ok = "stored in" in r.stdout
    print(f"{name}: confirm={'ok' if ok else 'FAILED'} crate={crate}", flush=True)
    if not ok:
        print(r.stdout[-1200:])
        continue
    props = [pid]
    if "framework.rs" in patch and pid != "C05":
        props.append("C05")
    r = subprocess.run(["python3", "/verif/checklib/seedrun.py", name] + props, stdout=subprocess.PIPE, stderr=subprocess.STDOUT, text=True)
    print(r.stdout.strip()[-700:], flush=True)
