"""Monitor-transparency stage (C05: framework, C19: simulator).

Every monitor in /verif observes the *hooked* build of the working tree (cargo feature `verif` on). What
users run is the default build. This stage shows, on executions, that the two builds compute the same
thing: the hooked harness dumps concrete cases together with what it got back (`vh hooksoff-fw|-sim`),
`/verif/hookless` - a separate crate linked against the default build of the same working tree -
re-executes every case from the file and compares. A difference means that the verdicts of the monitors
do not carry over to the build users run (or that the two runs of one deterministic function disagree,
which the determinism clause of C05 / the reproducibility clause of C19 forbids): it is reported as a
violation with the first differing answer and the full input as the witness."""
import json
import os
import resource
import subprocess
import time
from concurrent.futures import ThreadPoolExecutor

ROOT = os.path.dirname(os.path.dirname(os.path.abspath(__file__)))
TARGET = f"{ROOT}/target"
JOBS = int(os.environ.get("VERIF_JOBS", os.cpu_count() or 4))
ENV = dict(os.environ)
ENV.update({"CARGO_NET_OFFLINE": "true", "RUST_BACKTRACE": "0"})
VH = f"{TARGET}/checked/vh"
HOOKLESS = f"{TARGET}/hookless/checked/hookless"
MEM_LIMIT = 6 << 30

SIG = {"fw": "C05/default-build-answers-differently-from-the-monitored-build",
       "sim": "C19/default-build-answers-differently-from-the-monitored-build"}
# cases per chunk, chunks per tier
PLAN = {"fw": {"chunk": 2000, "quick": 2, "thorough": 64}, "sim": {"chunk": 3000, "quick": 2, "thorough": 64}}


def _limits():
    resource.setrlimit(resource.RLIMIT_AS, (MEM_LIMIT, MEM_LIMIT))


def run(cmd, cwd=None, timeout=1800, limited=True):
    try:
        p = subprocess.run(cmd, cwd=cwd, env=ENV, timeout=timeout, stdout=subprocess.PIPE, stderr=subprocess.STDOUT, text=True,
                           preexec_fn=_limits if limited else None)
        return p.returncode, p.stdout
    except subprocess.TimeoutExpired as ex:
        return 124, (ex.stdout or "") if isinstance(ex.stdout, str) else ""


def build(log):
    t0 = time.time()
    rc, out = run(["cargo", "build", "--offline", "--profile", "checked", "--target-dir", f"{TARGET}/hookless"], cwd=f"{ROOT}/hookless", limited=False)
    if rc != 0:
        log(out[-2000:])
        return False
    log(f"[build] hookless (default build of the working tree, hooks off) ok in {time.time() - t0:.1f}s")
    return True


def setup(sh, log):
    return build(log)


def one_chunk(kind, dump_seed, cases):
    """-> (result dict or None, diff list, problem string or None)"""
    os.makedirs(f"{TARGET}/run", exist_ok=True)
    path = f"{TARGET}/run/hooksoff-{kind}-{dump_seed}.jsonl"
    try:
        rc, out = run([VH, f"hooksoff-{kind}", "--seed", str(dump_seed), "--cases", str(cases), "--hashes", path])
        if rc != 0 or "HOOKSOFF-DUMP-OK" not in out:
            return None, [], f"dumping {kind} cases failed (rc={rc}): {out[-300:]}"
        rc, out = run([HOOKLESS, path])
        result, diffs = None, []
        for line in out.splitlines():
            if line.startswith("HOOKLESS-RESULT "):
                result = json.loads(line[len("HOOKLESS-RESULT "):])
            elif line.startswith("DIFF "):
                diffs.append(json.loads(line[5:]))
        if result is None:
            return None, diffs, f"the default-build runner did not finish (rc={rc}): {out[-300:]}"
        return result, diffs, None
    finally:
        if os.path.exists(path):
            os.remove(path)


def _stage(kind, tier, seed, log):
    res = {"obs": {}, "evaluations": 0, "violations": [], "inconclusive": [], "extra": {}}
    if not build(log):
        res["inconclusive"].append("the default-build runner (hookless) failed to build")
        return res
    plan = PLAN[kind]
    chunks = plan[tier]
    seeds = [seed * 100003 + i for i in range(chunks)]
    with ThreadPoolExecutor(max_workers=min(JOBS, chunks)) as ex:
        outs = list(ex.map(lambda s: (s, one_chunk(kind, s, plan["chunk"])), seeds))
    differences = 0
    for s, (result, diffs, problem) in outs:
        if problem:
            res["inconclusive"].append(problem)
            continue
        for k, v in result["stats"].items():
            key = f"hooks_off_{k}"
            res["obs"][key] = res["obs"].get(key, 0) + v
        differences += result["differences"]
        for d in diffs[:1]:
            res["violations"].append({
                "sig": SIG[kind], "case": d["case"],
                "detail": f"case {d['case']} of dump seed {s}: the default build (hooks off) and the monitored build (hooks on) of the same "
                          f"working tree answer differently on the same input; first difference {json.dumps(d['first_difference'])[:400]}",
                "witness": {"hooksoff": {"kind": kind, "dump_seed": s, "case": d["case"]}, "first_difference": d["first_difference"], "input": d["input"]},
            })
    res["evaluations"] = res["obs"].get("hooks_off_framework_cases_compared", 0) + res["obs"].get("hooks_off_simulations_compared", 0)
    res["obs"]["hooks_off_differences"] = differences
    return res


def stage_fw(tier, seed, sh, log):
    return _stage("fw", tier, seed, log)


def stage_sim(tier, seed, sh, log):
    return _stage("sim", tier, seed, log)


def replay(w, log):
    """re-execute the one case a stage witness names, in both builds"""
    h = w["witness"]["hooksoff"]
    if not build(log):
        return 2
    path = f"{TARGET}/run/hooksoff-replay.jsonl"
    os.makedirs(f"{TARGET}/run", exist_ok=True)
    rc, out = run([VH, f"hooksoff-{h['kind']}", "--seed", str(h["dump_seed"]), "--cases", str(h["case"] + 1), "--hashes", path])
    if rc != 0:
        print(out[-500:])
        return 2
    with open(path) as f:
        last = f.readlines()[-1]
    with open(path, "w") as f:
        f.write(last)
    rc, out = run([HOOKLESS, path])
    os.remove(path)
    print(out[-6000:])
    return 1 if "DIFF " in out else 0
