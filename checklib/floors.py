#!/usr/bin/env python3
"""Print suggested coverage floors (observed / 4, one significant digit) from an evidence file."""
import json, sys, math
def rd(x):
    x = x // 4
    if x <= 0: return 0
    p = 10 ** int(math.log10(x))
    return (x // p) * p
for pid in sys.argv[1:]:
    e = json.load(open(f'/verif/evidence/{pid}.json'))
    obs = e['coverage']['observed']
    fl = {k: rd(v) for k, v in obs.items() if not k.startswith('max:') and rd(v) >= (10 if pid == 'C06' else 1000) and 'sibling' not in k}
    print(pid, e['tier'], json.dumps(fl))
