#!/usr/bin/env python3
"""Regression of the checks against every stored seeded change, in parallel lanes: each lane is a pair of
scratch worktrees (of /repo and of /verif, both at HEAD) under /tmp/sreg; a lane applies one stored patch
to its own copy of the repository, runs the quick check of the change's own property from its own copy
of /verif, and restores. /repo and /verif themselves are not touched. Results go to
/verif/seeded/REGRESSION.jsonl (one line per change: name, property checked, exit status, signatures).

usage: seedregress.py run <lanes> [name-prefix...]   |   seedregress.py report   |   seedregress.py clean"""
import json, os, re, signal, subprocess, sys, time
from multiprocessing import Process

LANES = "/tmp/sreg"
OUT = os.environ.get("SEEDREGRESS_OUT", "/verif/seeded/REGRESSION.jsonl")
# changes delivered for one property that lie outside its subject (DESIGN section 9): checked where they belong
ELSEWHERE = {"C04-i": "C20", "C04-j": "C20", "C06-k": "C09"}


def sh(cmd, cwd, env=None, timeout=3600):
    e = dict(os.environ)
    e.update(env or {})
    p = subprocess.Popen(cmd, shell=True, cwd=cwd, env=e, stdout=subprocess.PIPE, stderr=subprocess.STDOUT, text=True, start_new_session=True)
    try:
        out, _ = p.communicate(timeout=timeout)
        return p.returncode, out
    except subprocess.TimeoutExpired:
        try:
            os.killpg(p.pid, signal.SIGKILL)
        except ProcessLookupError:
            pass
        p.wait()
        return 124, "timeout"


def lane_setup(k):
    d = f"{LANES}/lane{k}"
    os.makedirs(d, exist_ok=True)
    if not os.path.isdir(f"{d}/repo"):
        sh(f"git -C /repo worktree add -q --detach {d}/repo HEAD", "/")
    if not os.path.isdir(f"{d}/verif"):
        sh(f"git -C /verif worktree add -q --detach {d}/verif HEAD", "/")
    sh(f"ln -sfn {d}/repo {d}/verif/repo-link", "/")
    return d


def run_lane(k, names, jobs):
    d = lane_setup(k)
    repo, verif = f"{d}/repo", f"{d}/verif"
    env = {"CARGO_NET_OFFLINE": "true", "VERIF_JOBS": str(jobs)}
    for name in names:
        t0 = time.time()
        meta = json.load(open(f"/verif/seeded/{name}/meta.json"))
        pid = ELSEWHERE.get(name, meta["property"])
        sh("git checkout -- . && git clean -fdq crates", repo)
        rc, out = sh(f"git apply /verif/seeded/{name}/patch.diff", repo)
        res = {"name": name, "property_checked": pid}
        if rc != 0:
            res["status"] = "patch-does-not-apply"
        else:
            rc, out = sh(f"./check {pid} quick", verif, env, timeout=3000)
            res["exit"] = rc
            res["signatures"] = [f"{m.group(1)} ({m.group(2)}x)" for m in re.finditer(r"signature: (.+?) \((\d+)x\)  ", out)][:6]
            res["status"] = {0: "MISSED", 1: "caught", 2: "inconclusive"}.get(rc, f"rc={rc}")
            if rc not in (0, 1):
                res["tail"] = out[-400:]
        res["wall_s"] = round(time.time() - t0, 1)
        with open(OUT, "a") as f:
            f.write(json.dumps(res) + "\n")
        print(f"[lane{k}] {name} {pid} {res['status']} {res.get('signatures', [])[:2]} ({res['wall_s']}s)", flush=True)
    sh("git checkout -- . && git clean -fdq crates", repo)


def main():
    cmd = sys.argv[1]
    if cmd == "run":
        lanes = int(sys.argv[2])
        prefixes = sys.argv[3:]
        done = set()
        if os.path.exists(OUT):
            done = {json.loads(l)["name"] for l in open(OUT)}
        names = sorted(n for n in os.listdir("/verif/seeded") if os.path.isdir(f"/verif/seeded/{n}") and n not in done
                       and (not prefixes or any(n.startswith(p) for p in prefixes)))
        jobs = max(2, (os.cpu_count() or 8) // lanes)
        ps = []
        for k in range(lanes):
            p = Process(target=run_lane, args=(k, names[k::lanes], jobs))
            p.start()
            ps.append(p)
        for p in ps:
            p.join()
    elif cmd == "report":
        rows = [json.loads(l) for l in open(OUT)]
        from collections import Counter
        print(len(rows), "changes;", dict(Counter(r["status"] for r in rows)))
        for r in rows:
            if r["status"] != "caught":
                print(" ", r["name"], r["property_checked"], r["status"], r.get("tail", "")[-200:])
    elif cmd == "clean":
        for k in range(64):
            d = f"{LANES}/lane{k}"
            if os.path.isdir(d):
                sh(f"git -C /repo worktree remove --force {d}/repo; git -C /verif worktree remove --force {d}/verif", "/")
        sh(f"git -C /repo worktree prune; git -C /verif worktree prune; rm -rf {LANES}", "/")


if __name__ == "__main__":
    main()
