#!/bin/bash
# usage: with_patch.sh [-R] <patch-file|commit:SHA> -- <command...>
# Applies a patch (or the reverse of a commit with -R commit:SHA) to /repo's working tree, runs the
# command, and restores the tree no matter what.
set -u
REV=""
if [ "$1" = "-R" ]; then REV="-R"; shift; fi
SRC="$1"; shift; shift
cd /repo || exit 3
if [ -n "$(git status --porcelain --untracked-files=no)" ]; then echo "/repo not clean"; exit 3; fi
if [[ "$SRC" == commit:* ]]; then git show "${SRC#commit:}" | git apply $REV || exit 3
else git apply $REV "$SRC" || exit 3; fi
cd /verif
"$@"; rc=$?
git -C /repo checkout -- . ; git -C /repo clean -fdq crates
exit $rc
