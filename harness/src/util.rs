//! Shared plumbing: virtual clock, controllable RNGs, seeding, hashing.

use std::hash::{Hash, Hasher};
use std::ops::AddAssign;

use rand_core::{impls, Error, RngCore, SeedableRng};
use rand_xoshiro::Xoshiro256StarStar;

pub type Xo = Xoshiro256StarStar;

pub fn splitmix(mut x: u64) -> u64 {
    x = x.wrapping_add(0x9E37_79B9_7F4A_7C15);
    let mut z = x;
    z = (z ^ (z >> 30)).wrapping_mul(0xBF58_476D_1CE4_E5B9);
    z = (z ^ (z >> 27)).wrapping_mul(0x94D0_49BB_1331_11EB);
    z ^ (z >> 31)
}

/// Seed for case `k` of shard `i` of property `prop`: independent of how many
/// shards there are is not needed, but any case is reproducible on its own.
pub fn case_seed(seed: u64, prop: &str, shard: u64, case: u64) -> u64 {
    let mut h = splitmix(seed ^ 0x5eed);
    for b in prop.bytes() {
        h = splitmix(h ^ b as u64);
    }
    h = splitmix(h ^ shard.wrapping_mul(0x1000_0001));
    splitmix(h ^ case)
}

pub fn xo(seed: u64) -> Xo {
    Xo::seed_from_u64(seed)
}

pub fn hash_of<T: Hash>(t: &T) -> u64 {
    let mut h = Fnv::default();
    t.hash(&mut h);
    h.finish()
}

/// FNV-1a, deterministic across runs (std's default hasher is randomised).
pub struct Fnv(u64);
impl Default for Fnv {
    fn default() -> Self {
        Fnv(0xcbf2_9ce4_8422_2325)
    }
}
impl Hasher for Fnv {
    fn finish(&self) -> u64 {
        splitmix(self.0)
    }
    fn write(&mut self, bytes: &[u8]) {
        for b in bytes {
            self.0 ^= *b as u64;
            self.0 = self.0.wrapping_mul(0x0000_0100_0000_01B3);
        }
    }
}

// ---------------------------------------------------------------------------------------------
// virtual clock

/// Virtual instant in microseconds.
#[derive(Clone, Copy, Debug, PartialEq, Eq, PartialOrd, Ord, Hash, Default)]
pub struct VClock(pub u64);

/// Virtual duration in microseconds. Addition saturates.
#[derive(Clone, Copy, Debug, PartialEq, Eq, PartialOrd, Ord, Hash, Default)]
pub struct VDur(pub u64);

impl AddAssign for VDur {
    fn add_assign(&mut self, rhs: Self) {
        self.0 = self.0.saturating_add(rhs.0);
    }
}

impl maybenot::time::Duration for VDur {
    fn zero() -> Self {
        VDur(0)
    }
    fn from_micros(micros: u64) -> Self {
        VDur(micros)
    }
    fn is_zero(&self) -> bool {
        self.0 == 0
    }
    fn div_duration_f64(self, rhs: Self) -> f64 {
        self.0 as f64 / rhs.0 as f64
    }
}

impl maybenot::time::Instant for VClock {
    type Duration = VDur;
    fn saturating_duration_since(&self, earlier: Self) -> VDur {
        VDur(self.0.saturating_sub(earlier.0))
    }
}

// ---------------------------------------------------------------------------------------------
// RNGs

pub const DRAW_BUDGET_PANIC: &str = "verif: draw budget exceeded";

/// A scripted prefix of 64-bit words followed by a fair stream; counts draws
/// and panics past a draw budget.
#[derive(Clone, Debug)]
pub struct ScriptRng {
    pub prefix: Vec<u64>,
    pub pos: usize,
    pub tail: Xo,
    pub draws: u64,
    pub budget: u64,
}

impl ScriptRng {
    pub fn new(prefix: Vec<u64>, tail_seed: u64) -> Self {
        ScriptRng {
            prefix,
            pos: 0,
            tail: xo(tail_seed),
            draws: 0,
            budget: u64::MAX,
        }
    }
    pub fn fair(seed: u64) -> Self {
        Self::new(vec![], seed)
    }
}

impl RngCore for ScriptRng {
    fn next_u32(&mut self) -> u32 {
        (self.next_u64() >> 32) as u32
    }
    fn next_u64(&mut self) -> u64 {
        self.draws += 1;
        if self.draws > self.budget {
            panic!("{}", DRAW_BUDGET_PANIC);
        }
        if self.pos < self.prefix.len() {
            self.pos += 1;
            self.prefix[self.pos - 1]
        } else {
            self.tail.next_u64()
        }
    }
    fn fill_bytes(&mut self, dest: &mut [u8]) {
        impls::fill_bytes_via_next(self, dest)
    }
    fn try_fill_bytes(&mut self, dest: &mut [u8]) -> Result<(), Error> {
        self.fill_bytes(dest);
        Ok(())
    }
}

/// Returns a fixed 32-bit word (for enumerating the draw space of a single
/// `gen_range` for f32) and counts draws.
#[derive(Clone, Debug)]
pub struct WordRng {
    pub word: u32,
    pub draws: u64,
}

impl RngCore for WordRng {
    fn next_u32(&mut self) -> u32 {
        self.draws += 1;
        self.word
    }
    fn next_u64(&mut self) -> u64 {
        self.draws += 1;
        ((self.word as u64) << 32) | self.word as u64
    }
    fn fill_bytes(&mut self, dest: &mut [u8]) {
        impls::fill_bytes_via_next(self, dest)
    }
    fn try_fill_bytes(&mut self, dest: &mut [u8]) -> Result<(), Error> {
        self.fill_bytes(dest);
        Ok(())
    }
}

/// An RNG driven by a choice script for bounded-exhaustive exploration: draw
/// `i` returns `script[i]` (a 32-bit word placed in the high half) while the
/// script lasts and records that it ran out otherwise (returning 0).
#[derive(Clone, Debug, Default)]
pub struct ChoiceRng {
    pub script: Vec<u32>,
    pub pos: usize,
    pub overrun: usize,
}

impl RngCore for ChoiceRng {
    fn next_u32(&mut self) -> u32 {
        (self.next_u64() >> 32) as u32
    }
    fn next_u64(&mut self) -> u64 {
        let w = if self.pos < self.script.len() {
            self.script[self.pos]
        } else {
            self.overrun += 1;
            0
        };
        self.pos += 1;
        (w as u64) << 32
    }
    fn fill_bytes(&mut self, dest: &mut [u8]) {
        impls::fill_bytes_via_next(self, dest)
    }
    fn try_fill_bytes(&mut self, dest: &mut [u8]) -> Result<(), Error> {
        self.fill_bytes(dest);
        Ok(())
    }
}

// ---------------------------------------------------------------------------------------------
// small helpers on a generator RNG

pub trait Pick {
    fn below(&mut self, n: u64) -> u64;
    fn chance(&mut self, num: u64, den: u64) -> bool {
        self.below(den) < num
    }
    fn pick<'a, T>(&mut self, xs: &'a [T]) -> &'a T {
        &xs[self.below(xs.len() as u64) as usize]
    }
    fn range(&mut self, lo: u64, hi_incl: u64) -> u64 {
        lo + self.below(hi_incl - lo + 1)
    }
    fn unit_f64(&mut self) -> f64;
}

impl Pick for Xo {
    fn below(&mut self, n: u64) -> u64 {
        if n == 0 {
            return 0;
        }
        // multiply-shift; bias is irrelevant for workload generation
        ((self.next_u64() as u128 * n as u128) >> 64) as u64
    }
    fn unit_f64(&mut self) -> f64 {
        (self.next_u64() >> 11) as f64 / (1u64 << 53) as f64
    }
}

/// A handle to a [`ChoiceRng`] shared between the explorer and the framework that owns the RNG.
#[derive(Clone, Debug, Default)]
pub struct SharedChoice(pub std::rc::Rc<std::cell::RefCell<ChoiceRng>>);

impl SharedChoice {
    pub fn set(&self, script: &[u32]) {
        let mut c = self.0.borrow_mut();
        c.script.clear();
        c.script.extend_from_slice(script);
        c.pos = 0;
        c.overrun = 0;
    }
    pub fn overrun(&self) -> usize {
        self.0.borrow().overrun
    }
    pub fn used(&self) -> usize {
        self.0.borrow().pos
    }
}

impl RngCore for SharedChoice {
    fn next_u32(&mut self) -> u32 {
        self.0.borrow_mut().next_u32()
    }
    fn next_u64(&mut self) -> u64 {
        self.0.borrow_mut().next_u64()
    }
    fn fill_bytes(&mut self, dest: &mut [u8]) {
        self.0.borrow_mut().fill_bytes(dest)
    }
    fn try_fill_bytes(&mut self, dest: &mut [u8]) -> Result<(), Error> {
        self.fill_bytes(dest);
        Ok(())
    }
}

/// A fair stream salted with extreme words (all ones / all zeros), each with probability 1/8: for
/// machines with deterministic sampling no word may matter, so extreme words must not either.
#[derive(Clone, Debug)]
pub struct NoisyRng {
    pub inner: Xo,
}

impl NoisyRng {
    pub fn new(seed: u64) -> Self {
        NoisyRng { inner: xo(seed) }
    }
}

impl RngCore for NoisyRng {
    fn next_u32(&mut self) -> u32 {
        (self.next_u64() >> 32) as u32
    }
    fn next_u64(&mut self) -> u64 {
        let w = self.inner.next_u64();
        match w & 7 {
            0 => u64::MAX,
            1 => 0,
            _ => self.inner.next_u64(),
        }
    }
    fn fill_bytes(&mut self, dest: &mut [u8]) {
        impls::fill_bytes_via_next(self, dest)
    }
    fn try_fill_bytes(&mut self, dest: &mut [u8]) -> Result<(), Error> {
        self.fill_bytes(dest);
        Ok(())
    }
}
