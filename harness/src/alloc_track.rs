//! A counting global allocator: tracks live bytes and their peak (sizes only, no addresses, so it
//! hides nothing from leak checkers).

use std::alloc::{GlobalAlloc, Layout, System};
use std::sync::atomic::{AtomicUsize, Ordering};

pub struct Counting;

static LIVE: AtomicUsize = AtomicUsize::new(0);
static PEAK: AtomicUsize = AtomicUsize::new(0);
static ALLOCS: AtomicUsize = AtomicUsize::new(0);
static FREES: AtomicUsize = AtomicUsize::new(0);

fn add(n: usize) {
    let live = LIVE.fetch_add(n, Ordering::Relaxed) + n;
    PEAK.fetch_max(live, Ordering::Relaxed);
}

unsafe impl GlobalAlloc for Counting {
    unsafe fn alloc(&self, l: Layout) -> *mut u8 {
        let p = unsafe { System.alloc(l) };
        if !p.is_null() {
            add(l.size());
            ALLOCS.fetch_add(1, Ordering::Relaxed);
        }
        p
    }
    unsafe fn dealloc(&self, p: *mut u8, l: Layout) {
        unsafe { System.dealloc(p, l) };
        LIVE.fetch_sub(l.size(), Ordering::Relaxed);
        FREES.fetch_add(1, Ordering::Relaxed);
    }
    unsafe fn alloc_zeroed(&self, l: Layout) -> *mut u8 {
        let p = unsafe { System.alloc_zeroed(l) };
        if !p.is_null() {
            add(l.size());
            ALLOCS.fetch_add(1, Ordering::Relaxed);
        }
        p
    }
    unsafe fn realloc(&self, p: *mut u8, l: Layout, new: usize) -> *mut u8 {
        let q = unsafe { System.realloc(p, l, new) };
        if !q.is_null() {
            if new >= l.size() {
                add(new - l.size());
            } else {
                LIVE.fetch_sub(l.size() - new, Ordering::Relaxed);
            }
        }
        q
    }
}

pub fn live() -> usize {
    LIVE.load(Ordering::Relaxed)
}

/// Restart peak tracking from the current level; returns that level.
pub fn reset_peak() -> usize {
    let l = live();
    PEAK.store(l, Ordering::Relaxed);
    l
}

pub fn peak() -> usize {
    PEAK.load(Ordering::Relaxed)
}

pub fn counts() -> (usize, usize) {
    (ALLOCS.load(Ordering::Relaxed), FREES.load(Ordering::Relaxed))
}
