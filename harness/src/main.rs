//! vh — worker binary of the runtime-monitoring harness.
//!
//! `vh <prop> --seed S --tier quick|thorough --shard i --nshards n [--cases N]
//!     [--start k] [--only k] [--max-seconds s] [--hb FILE] [--hashes FILE] [--verbose]`
//!
//! Runs the cases of one shard of one property's workload against the real code, with the
//! property's monitor watching, and prints one line `RESULT {json}` at the end.

mod alloc_track;
mod drive;
mod gen;
mod hooksoff;
mod props;
mod refsem;
mod util;

use std::collections::{BTreeMap, HashSet};
use std::io::{Seek, SeekFrom, Write};
use std::panic::{catch_unwind, AssertUnwindSafe};
use std::time::Instant;

use serde_json::{json, Value};

#[global_allocator]
static GLOBAL: alloc_track::Counting = alloc_track::Counting;

#[derive(Clone, Copy, Debug, PartialEq, Eq)]
pub enum Tier {
    Quick,
    Thorough,
}

#[derive(Clone, Debug)]
pub struct Violation {
    pub sig: String,
    pub case: u64,
    pub detail: String,
    pub witness: Value,
}

pub struct Out {
    pub evaluations: u64,
    pub obs: BTreeMap<String, u64>,
    pub hashes: HashSet<u64>,
    pub hash_cap: usize,
    pub nontrivial: u64,
    pub violations: Vec<Violation>,
    pub sig_counts: BTreeMap<String, u64>,
    pub samples: Vec<Value>,
    pub extra: BTreeMap<String, Value>,
    pub cur_case: u64,
    pub verbose: bool,
}

impl Out {
    pub fn bump(&mut self, key: &str) {
        self.add(key, 1);
    }
    pub fn add(&mut self, key: &str, n: u64) {
        if n == 0 {
            return;
        }
        if let Some(v) = self.obs.get_mut(key) {
            *v += n;
        } else {
            self.obs.insert(key.to_string(), n);
        }
    }
    pub fn max(&mut self, key: &str, n: u64) {
        let e = self.obs.entry(format!("max:{key}")).or_insert(0);
        if n > *e {
            *e = n;
        }
    }
    /// Record that this case was non-trivial by the property's rule; `h` identifies the case.
    pub fn nontrivial(&mut self, h: u64) {
        self.nontrivial += 1;
        if self.hashes.len() < self.hash_cap {
            self.hashes.insert(h);
        }
    }
    pub fn violation(&mut self, sig: impl Into<String>, detail: impl Into<String>, witness: Value) {
        let sig = sig.into();
        *self.sig_counts.entry(sig.clone()).or_insert(0) += 1;
        let per_sig = self.violations.iter().filter(|v| v.sig == sig).count();
        if per_sig < 3 && self.violations.len() < 60 {
            self.violations.push(Violation {
                sig,
                case: self.cur_case,
                detail: detail.into(),
                witness,
            });
        }
    }
    pub fn sample(&mut self, v: impl FnOnce() -> Value) {
        if self.samples.len() < 3 {
            self.samples.push(v());
        }
    }
}

pub struct CaseCx {
    /// this case is re-run alone (replay or isolation after a stall/crash)
    pub only: bool,
    /// the worker was restarted after a stall/crash
    pub restarted: bool,
    pub seed: u64,
    pub case: u64,
    pub tier: Tier,
    pub base_seed: u64,
    pub shard: u64,
    pub nshards: u64,
}

pub trait Prop {
    fn cases(&self, tier: Tier) -> u64;
    fn run_case(&mut self, cx: &CaseCx, out: &mut Out);
    fn finish(&mut self, _out: &mut Out) {}
}

static HB_FILE: std::sync::Mutex<Option<(std::fs::File, u64)>> = std::sync::Mutex::new(None);

/// Tag the heartbeat with what the current case is about to do (read by the supervisor when the
/// worker stalls or dies).
pub fn hb_tag(tag: &str) {
    if let Ok(mut g) = HB_FILE.lock() {
        if let Some((f, case)) = g.as_mut() {
            let _ = f.set_len(0);
            let _ = f.seek(SeekFrom::Start(0));
            let _ = f.write_all(format!("{:>20}\n{}\n", case, tag).as_bytes());
        }
    }
}

thread_local! {
    pub static LAST_PANIC: std::cell::RefCell<Option<(String, String)>> = const { std::cell::RefCell::new(None) };
}

/// Message and location (`file:line`) of the most recent panic on this thread.
pub fn take_panic() -> (String, String) {
    LAST_PANIC
        .with(|p| p.borrow_mut().take())
        .unwrap_or_else(|| ("<unknown panic>".into(), "<unknown>".into()))
}

/// A short, stable signature for a panic: location without the line number plus the start of
/// the message with digits folded.
pub fn panic_sig(msg: &str, loc: &str) -> String {
    let file = loc.rsplit_once(':').map(|x| x.0).unwrap_or(loc);
    let file = file.rsplit_once(':').map(|x| x.0).unwrap_or(file);
    let short: String = file
        .rsplit('/')
        .take(2)
        .collect::<Vec<_>>()
        .into_iter()
        .rev()
        .collect::<Vec<_>>()
        .join("/");
    let mut m: String = msg.chars().take(60).collect();
    m = m
        .chars()
        .map(|c| if c.is_ascii_digit() { '#' } else { c })
        .collect();
    while m.contains("##") {
        m = m.replace("##", "#");
    }
    format!("{short}:{m}")
}

pub fn is_harness_loc(loc: &str) -> bool {
    loc.starts_with("src/") || loc.contains("/verif/harness/")
}

fn install_panic_hook() {
    std::panic::set_hook(Box::new(|info| {
        let msg = if let Some(s) = info.payload().downcast_ref::<&str>() {
            s.to_string()
        } else if let Some(s) = info.payload().downcast_ref::<String>() {
            s.clone()
        } else {
            "<non-string panic>".to_string()
        };
        let loc = info
            .location()
            .map(|l| format!("{}:{}:{}", l.file(), l.line(), l.column()))
            .unwrap_or_else(|| "<unknown>".into());
        LAST_PANIC.with(|p| *p.borrow_mut() = Some((msg, loc)));
    }));
}

struct Args {
    prop: String,
    seed: u64,
    tier: Tier,
    shard: u64,
    nshards: u64,
    cases: Option<u64>,
    start: u64,
    only: Option<u64>,
    max_seconds: f64,
    hb: Option<String>,
    hashes: Option<String>,
    verbose: bool,
}

fn parse_args() -> Args {
    let mut a = Args {
        prop: String::new(),
        seed: 1,
        tier: Tier::Quick,
        shard: 0,
        nshards: 1,
        cases: None,
        start: 0,
        only: None,
        max_seconds: f64::INFINITY,
        hb: None,
        hashes: None,
        verbose: false,
    };
    let mut it = std::env::args().skip(1);
    a.prop = it.next().expect("usage: vh <prop> [options]");
    while let Some(k) = it.next() {
        let mut val = || it.next().expect("missing value");
        match k.as_str() {
            "--seed" => a.seed = val().parse().unwrap(),
            "--tier" => {
                a.tier = match val().as_str() {
                    "quick" => Tier::Quick,
                    "thorough" => Tier::Thorough,
                    t => panic!("bad tier {t}"),
                }
            }
            "--shard" => a.shard = val().parse().unwrap(),
            "--nshards" => a.nshards = val().parse().unwrap(),
            "--cases" => a.cases = Some(val().parse().unwrap()),
            "--start" => a.start = val().parse().unwrap(),
            "--only" => a.only = Some(val().parse().unwrap()),
            "--max-seconds" => a.max_seconds = val().parse().unwrap(),
            "--hb" => a.hb = Some(val()),
            "--hashes" => a.hashes = Some(val()),
            "--verbose" => a.verbose = true,
            other => panic!("unknown option {other}"),
        }
    }
    a
}

struct StderrLog;
impl log::Log for StderrLog {
    fn enabled(&self, _: &log::Metadata<'_>) -> bool {
        true
    }
    fn log(&self, r: &log::Record<'_>) {
        eprintln!("{}", r.args());
    }
    fn flush(&self) {}
}
static LOGGER: StderrLog = StderrLog;

fn main() {
    let a = parse_args();
    if std::env::var("VH_SIMLOG").is_ok() {
        let _ = log::set_logger(&LOGGER);
        log::set_max_level(log::LevelFilter::Debug);
    }
    if a.prop == "c20-script" {
        props::c20::write_script(a.seed, a.cases.unwrap_or(200), a.hashes.as_deref().expect("--hashes <path> names the script file"));
        return;
    }
    if a.prop == "hooksoff-fw" || a.prop == "hooksoff-sim" {
        // monitor-transparency stage: cases and the hooked build's answers, for /verif/hookless to re-execute
        hooksoff::dump(&a.prop["hooksoff-".len()..], a.seed, a.cases.unwrap_or(2000) as u64, a.hashes.as_deref().expect("--hashes <path> names the case file"));
        return;
    }
    if a.prop == "c20-miri" || a.prop == "c20-san" {
        // sanitizer / Miri entry: no panic hook games, plain run
        props::c20::sanitizer_main(&a.prop, a.seed, a.cases.unwrap_or(200), a.shard);
        return;
    }
    install_panic_hook();
    let mut prop: Box<dyn Prop> = props::make(&a.prop, a.tier).unwrap_or_else(|| {
        eprintln!("unknown property {}", a.prop);
        std::process::exit(3);
    });
    let total = a.cases.unwrap_or_else(|| prop.cases(a.tier));
    // cases are dealt round-robin: shard i runs cases i, i+n, i+2n, ... (global ids)
    let mut out = Out {
        evaluations: 0,
        obs: BTreeMap::new(),
        hashes: HashSet::new(),
        hash_cap: 400_000,
        nontrivial: 0,
        violations: vec![],
        sig_counts: BTreeMap::new(),
        samples: vec![],
        extra: BTreeMap::new(),
        cur_case: 0,
        verbose: a.verbose,
    };
    if let Some(p) = a.hb.as_ref() {
        let f = std::fs::OpenOptions::new().create(true).write(true).truncate(true).open(p).expect("open heartbeat");
        *HB_FILE.lock().unwrap() = Some((f, 0));
    }
    let t0 = Instant::now();
    let mut harness_errors: Vec<String> = vec![];
    let mut cut_short = false;
    let mut k = a.start;
    let mut last_done: i64 = -1;
    loop {
        let case = if let Some(o) = a.only { o } else { a.shard + k * a.nshards };
        if a.only.is_none() && case >= total {
            break;
        }
        if t0.elapsed().as_secs_f64() > a.max_seconds {
            cut_short = true;
            break;
        }
        if let Ok(mut g) = HB_FILE.lock() {
            if let Some((f, c)) = g.as_mut() {
                *c = case;
                let _ = f.set_len(0);
                let _ = f.seek(SeekFrom::Start(0));
                let _ = f.write_all(format!("{:>20}\n", case).as_bytes());
            }
        }
        out.cur_case = case;
        let cx = CaseCx {
            only: a.only.is_some(),
            restarted: a.start > 0,
            seed: util::case_seed(a.seed, &a.prop, 0, case),
            case,
            tier: a.tier,
            base_seed: a.seed,
            shard: a.shard,
            nshards: a.nshards,
        };
        let r = catch_unwind(AssertUnwindSafe(|| prop.run_case(&cx, &mut out)));
        if r.is_err() {
            let (msg, loc) = take_panic();
            if is_harness_loc(&loc) {
                harness_errors.push(format!("case {case}: {msg} at {loc}"));
            } else {
                out.violation(
                    format!("panic/{}", panic_sig(&msg, &loc)),
                    format!("uncaught panic: {msg} at {loc}"),
                    json!({"panic": msg, "at": loc}),
                );
            }
        }
        last_done = case as i64;
        if a.only.is_some() {
            break;
        }
        k += 1;
    }
    let _ = catch_unwind(AssertUnwindSafe(|| prop.finish(&mut out)));
    if let Some(p) = a.hashes.as_ref() {
        let mut buf = Vec::with_capacity(out.hashes.len() * 8);
        for h in &out.hashes {
            buf.extend_from_slice(&h.to_le_bytes());
        }
        std::fs::write(p, buf).expect("write hashes");
    }
    let viols: Vec<Value> = out
        .violations
        .iter()
        .map(|v| json!({"sig": v.sig, "case": v.case, "detail": v.detail, "witness": v.witness}))
        .collect();
    let res = json!({
        "prop": a.prop,
        "seed": a.seed,
        "shard": a.shard,
        "nshards": a.nshards,
        "evaluations": out.evaluations,
        "nontrivial": out.nontrivial,
        "distinct_local": out.hashes.len(),
        "hash_cap_hit": out.hashes.len() >= out.hash_cap,
        "obs": out.obs,
        "sig_counts": out.sig_counts,
        "violations": viols,
        "samples": out.samples,
        "extra": out.extra,
        "harness_errors": harness_errors,
        "cut_short": cut_short,
        "last_case": last_done,
        "wall_s": t0.elapsed().as_secs_f64(),
    });
    println!("RESULT {}", res);
}
