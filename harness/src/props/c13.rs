//! C13 — sampling a validated distribution returns promptly with a value in range, for every
//! random source consisting of a short prefix of extreme words followed by a fair stream.

use std::panic::{catch_unwind, AssertUnwindSafe};

use enum_map::enum_map;
use maybenot::action::Action;
use maybenot::counter::{Counter, Operation};
use maybenot::dist::{Dist, DistType};
use maybenot::event::{Event, TriggerEvent};
use maybenot::state::{State, Trans};
use maybenot::{Framework, Machine};
use rand_core::RngCore;
use serde_json::json;

use crate::drive::trigger;
use crate::util::{hash_of, xo, Pick, ScriptRng, VClock, Xo, DRAW_BUDGET_PANIC};
use crate::{hb_tag, panic_sig, take_panic, CaseCx, Out, Prop, Tier};

pub struct C13 {
    confirmed: bool,
    skip_predicted: bool,
}

impl Default for C13 {
    fn default() -> Self {
        C13 { confirmed: false, skip_predicted: true }
    }
}

const EXTREME: [u64; 7] = [0, u64::MAX, 0xAAAA_AAAA_AAAA_AAAA, 0x5555_5555_5555_5555, 1 << 63, (1 << 63) - 1, 1];
const DRAW_BUDGET: u64 = 100_000;

fn up(x: f64) -> f64 {
    f64::from_bits(x.to_bits() + 1)
}
fn down(x: f64) -> f64 {
    f64::from_bits(x.to_bits() - 1)
}

fn scale(r: &mut Xo) -> f64 {
    *r.pick(&[f64::from_bits(1), f64::MIN_POSITIVE, 1.0e-300, 1.0e-9, 0.5, 1.0, 2.0, 10.0, 1.0e6, 1.0e18, 1.0e100, 1.0e300, f64::MAX])
}

fn shape(r: &mut Xo) -> f64 {
    *r.pick(&[f64::from_bits(1), f64::MIN_POSITIVE, 1.0e-9, 0.01, 0.5, 1.0, down(1.0), up(1.0), 2.0, 10.0, 1.0e6, 1.0e300, f64::MAX])
}

fn loc(r: &mut Xo) -> f64 {
    *r.pick(&[0.0, -0.0, 1.0, -1.0, 1.0e6, -1.0e6, 1.0e300, -1.0e300, f64::MAX, f64::MIN, f64::NAN, f64::INFINITY, f64::NEG_INFINITY])
}

fn gen_type(r: &mut Xo, fam: u64) -> DistType {
    match fam {
        0 => {
            if r.chance(1, 6) {
                // degenerate and nearly degenerate ranges, signed zeros included (low == high holds for -0.0, 0.0)
                let (low, high) = *r.pick(&[
                    (-0.0, 0.0),
                    (0.0, -0.0),
                    (-0.0, -0.0),
                    (0.0, 0.0),
                    (5.0, 5.0),
                    (f64::MAX, f64::MAX),
                    (f64::MIN, f64::MIN),
                    (-f64::from_bits(1), f64::from_bits(1)),
                    (0.0, f64::from_bits(1)),
                    (1.0, up(1.0)),
                    (-f64::MAX / 2.0, f64::MAX / 2.0),
                ]);
                return DistType::Uniform { low, high };
            }
            let a = loc(r);
            let b = if r.chance(1, 3) { a } else { loc(r) };
            DistType::Uniform { low: a.min(b), high: a.max(b) }
        }
        1 => DistType::Normal { mean: loc(r), stdev: *r.pick(&[0.0, -0.0, -1.0, 1.0, 1.0e-300, 1.0e300, f64::MAX, f64::MIN]) },
        2 => DistType::SkewNormal { location: loc(r), scale: scale(r), shape: *r.pick(&[0.0, 1.0, -1.0, 1.0e300, -1.0e300, f64::MAX, f64::MIN, 1.0e-300]) },
        3 => DistType::LogNormal { mu: loc(r), sigma: *r.pick(&[0.0, -1.0, 1.0, 50.0, 1.0e300, f64::MAX, f64::MIN]) },
        4 => DistType::Binomial {
            // the last values of each list lie beyond today's validation bounds: they are sampled only
            // if validation admits them, so a relaxed bound is probed where it now lies
            trials: *r.pick(&[0, 1, 2, 9, 10, 11, 20, 1000, 1_000_000, 999_999_999, 1_000_000_000, 1_000_000_001, (1 << 31) - 1, 1 << 31, 1 << 32, (1 << 32) + 1, (1 << 32) + 1000, 1 << 40, 1 << 63, 0xFFFF_FFFF_0000_0000, u64::MAX]),
            probability: *r.pick(&[
                0.0,
                1.0e-9,
                up(1.0e-9),
                1.0e-6,
                0.01,
                0.1,
                0.3,
                0.5,
                down(0.5),
                up(0.5),
                0.7,
                0.99,
                down(1.0),
                1.0 - 1.0e-9,
                1.0,
                down(1.0e-9),
                1.0e-12,
                1.0e-300,
                f64::MIN_POSITIVE,
            ]),
        },
        5 => DistType::Geometric {
            probability: *r.pick(&[0.0, 1.0e-9, up(1.0e-9), 1.0e-6, 0.01, 0.5, 2.0 / 3.0, down(2.0 / 3.0), 0.9, down(1.0), 1.0, down(1.0e-9), 1.0e-12, 1.0e-300, f64::MIN_POSITIVE]),
        },
        6 => DistType::Pareto { scale: scale(r), shape: shape(r) },
        7 => DistType::Poisson {
            lambda: *r.pick(&[
                f64::from_bits(1),
                1.0e-300,
                1.0e-9,
                0.5,
                1.0,
                11.9,
                down(12.0),
                12.0,
                up(12.0),
                100.0,
                1.0e6,
                1.0e15,
                1.0e30,
                1.0e42,
                // beyond today's bound (see Binomial)
                up(1.0e42),
                1.0e43,
                1.0e100,
                1.0e200,
                1.0e300,
                2.6e305,
                5.0e305,
                1.0e306,
                1.0e308,
                f64::MAX,
            ]),
        },
        8 => DistType::Weibull { scale: scale(r), shape: shape(r) },
        9 => DistType::Gamma { scale: scale(r), shape: shape(r) },
        _ => DistType::Beta { alpha: shape(r), beta: shape(r) },
    }
}

const FAMILIES: [&str; 11] = ["Uniform", "Normal", "SkewNormal", "LogNormal", "Binomial", "Geometric", "Pareto", "Poisson", "Weibull", "Gamma", "Beta"];

fn gen_dist(r: &mut Xo, rejected: &mut u64) -> (Dist, usize) {
    loop {
        let fam = r.below(11);
        let dt = gen_type(r, fam);
        let (start, max) = if r.chance(1, 4) {
            // values that are not exactly representable sums: rounding in start/max arithmetic matters
            let st = match r.below(4) {
                0 => r.unit_f64(),
                1 => -r.unit_f64() * 10.0,
                2 => *r.pick(&[0.1, 0.3, 0.7, -0.7, 1.0e16 + 2.0, -1.0000000000000002e16, 3.3333333333333335]),
                _ => r.unit_f64() * 1.0e6,
            };
            let mx = match r.below(3) {
                0 => st.abs() + r.unit_f64(),
                1 => *r.pick(&[0.9, 0.3, 1.1, 0.1, 2.0 / 3.0, 1.0, 1.0e-3, 0.49999999999999994, 0.5, 1.4999999999999998, 1.5, 2.5]),
                _ => r.unit_f64() * 10.0,
            };
            (st, mx)
        } else {
            (
                *r.pick(&[0.0, 0.0, 0.0, 1.0, -1.0, 1.0e6, f64::NAN, f64::INFINITY, f64::NEG_INFINITY, f64::MAX]),
                *r.pick(&[
                    0.0,
                    0.0,
                    0.0,
                    1.0,
                    1000.0,
                    1.0e-300,
                    1.0e-20,
                    f64::EPSILON,
                    f64::MIN_POSITIVE,
                    f64::NAN,
                    f64::INFINITY,
                    f64::NEG_INFINITY,
                    f64::MAX,
                    -1.0,
                    // where the conversion of the sample to whole microseconds / counts is delicate
                    0.49999999999999994,
                    4503599627370497.0, // 2^52 + 1
                    9007199254740991.0, // 2^53 - 1
                    9007199254740993.0, // 2^53 + 1 (not representable: 2^53)
                    18446744073709551615.0, // 2^64
                ]),
            )
        };
        let d = Dist::new(dt, start, max);
        if d.validate().is_ok() {
            return (d, fam as usize);
        }
        *rejected += 1;
    }
}

/// Replica of rand_distr 0.4.3's BINV loop (binomial.rs) with an iteration cap: does the inversion
/// terminate for uniform variate `u`? (`None` = BINV is not used for these parameters.)
fn binv_terminates(trials: u64, probability: f64, u0: f64) -> Option<bool> {
    if probability == 0.0 || probability == 1.0 {
        return None;
    }
    let p = if probability <= 0.5 { probability } else { 1.0 - probability };
    if !((trials as f64) * p < 10.0 && trials <= i32::MAX as u64) {
        return None;
    }
    let q = 1.0 - p;
    let s = p / q;
    let a = ((trials + 1) as f64) * s;
    let mut r = q.powi(trials as i32);
    let mut u = u0;
    let mut x = 0u64;
    while u > r {
        u -= r;
        x += 1;
        r *= a / (x as f64) - s;
        if x > 5_000_000 {
            return Some(false);
        }
    }
    Some(true)
}

fn in_range(d: &Dist, v: f64) -> Result<(), String> {
    if v.is_nan() {
        return Err("NaN".into());
    }
    if v < 0.0 {
        return Err(format!("{v} is negative"));
    }
    if d.max > 0.0 && v > d.max {
        return Err(format!("{v} exceeds max {}", d.max));
    }
    Ok(())
}

impl Prop for C13 {
    fn cases(&self, tier: Tier) -> u64 {
        match tier {
            Tier::Quick => 600_000,
            Tier::Thorough => 60_000_000,
        }
    }

    fn run_case(&mut self, cx: &CaseCx, out: &mut Out) {
        let mut r = xo(cx.seed);
        // a distribution that validation refuses, offered inside a machine in each position a distribution
        // can take (alone and next to valid siblings): whatever machine validation accepts must run
        if r.chance(1, 16) {
            out.evaluations += 1;
            let bad = loop {
                let fam = r.below(11);
                let mut dt = gen_type(&mut r, fam);
                if r.chance(1, 2) {
                    // one parameter replaced by a value no family admits there
                    let x = *r.pick(&[f64::NAN, f64::NAN, f64::INFINITY, f64::NEG_INFINITY, -1.0, -0.0, 0.0, -f64::MIN_POSITIVE, 2.0, 1.0e308]);
                    let first = r.chance(1, 2);
                    dt = match dt {
                        DistType::Uniform { low, high } => if first { DistType::Uniform { low: x, high } } else { DistType::Uniform { low, high: x } },
                        DistType::Normal { mean, stdev } => if first { DistType::Normal { mean: x, stdev } } else { DistType::Normal { mean, stdev: x } },
                        DistType::SkewNormal { location, scale, shape } => if first { DistType::SkewNormal { location, scale: x, shape } } else { DistType::SkewNormal { location, scale, shape: x } },
                        DistType::LogNormal { mu, sigma } => if first { DistType::LogNormal { mu: x, sigma } } else { DistType::LogNormal { mu, sigma: x } },
                        DistType::Binomial { trials, .. } => DistType::Binomial { trials, probability: x },
                        DistType::Geometric { .. } => DistType::Geometric { probability: x },
                        DistType::Pareto { scale, shape } => if first { DistType::Pareto { scale: x, shape } } else { DistType::Pareto { scale, shape: x } },
                        DistType::Poisson { .. } => DistType::Poisson { lambda: x },
                        DistType::Weibull { scale, shape } => if first { DistType::Weibull { scale: x, shape } } else { DistType::Weibull { scale, shape: x } },
                        DistType::Gamma { scale, shape } => if first { DistType::Gamma { scale: x, shape } } else { DistType::Gamma { scale, shape: x } },
                        DistType::Beta { alpha, beta } => if first { DistType::Beta { alpha: x, beta } } else { DistType::Beta { alpha, beta: x } },
                    };
                }
                let d = Dist::new(dt, 0.0, 0.0);
                // refused by validation, or not well-formed by the independent predicate of C12 (what
                // validation says about the distribution alone is not taken for granted)
                if d.validate().is_err() || crate::props::c12::wf_dist(&d).is_err() {
                    break d;
                }
            };
            let ok = crate::gen::constant(1.0);
            let okc = Some(Counter::new_dist(Operation::Decrement, ok));
            let badc = |op| Some(Counter::new_dist(op, bad));
            let place = r.below(9);
            let (action, counter) = match place {
                0 => (Some(Action::SendPadding { bypass: false, replace: false, timeout: bad, limit: None }), (None, None)),
                1 => (Some(Action::SendPadding { bypass: false, replace: false, timeout: ok, limit: Some(bad) }), (None, None)),
                2 => (Some(Action::BlockOutgoing { bypass: false, replace: false, timeout: ok, duration: bad, limit: Some(ok) }), (None, None)),
                3 => (Some(Action::UpdateTimer { replace: false, duration: ok, limit: Some(bad) }), (okc, None)),
                4 => (None, (badc(Operation::Set), None)),
                5 => (None, (None, badc(Operation::Set))),
                6 => (None, (okc, badc(Operation::Increment))),
                7 => (None, (badc(Operation::Increment), okc)),
                _ => (Some(Action::Cancel { timer: maybenot::action::Timer::All }), (okc, badc(Operation::Set))),
            };
            let mut s0 = State::new(enum_map! { Event::NormalSent => vec![Trans(1, 1.0)], _ => vec![] });
            s0.action = None;
            let mut s1 = State::new(enum_map! { Event::NormalSent => vec![Trans(0, 1.0)], _ => vec![] });
            s1.action = action;
            s1.counter = counter;
            match Machine::new(u64::MAX, 0.0, u64::MAX, 0.0, vec![s0, s1]) {
                Err(_) => out.bump("machines_with_a_refused_distribution_rejected"),
                Ok(m) => {
                    out.bump("machines_with_a_refused_distribution_ACCEPTED_and_run");
                    let ms = [m];
                    let res = catch_unwind(AssertUnwindSafe(|| {
                        let mut g = ScriptRng::fair(r.next_u64());
                        g.budget = DRAW_BUDGET;
                        if let Ok(mut fw) = Framework::new(&ms[..], 0.0, 0.0, VClock(0), g) {
                            for i in 0..4 {
                                let _ = trigger(&mut fw, &[TriggerEvent::NormalSent], VClock(i));
                            }
                        }
                    }));
                    if res.is_err() {
                        let (msg, loc) = take_panic();
                        out.violation(
                            format!("C13/accepted-machine-crashed-through-its-distribution/{}", panic_sig(&msg, &loc)),
                            format!("machine validation accepted {bad:?} in position {place} (Dist::validate: {:?}; independent well-formedness: {:?}); running the machine: {msg} at {loc}", bad.validate().is_ok(), crate::props::c12::wf_dist(&bad).is_ok()),
                            json!({"dist": format!("{bad:?}"), "position": place}),
                        );
                    }
                }
            }
            return;
        }
        let mut rejected = 0;
        let (d, fam) = gen_dist(&mut r, &mut rejected);
        out.add("candidate_distributions_rejected_by_validation_(incl._parameters_beyond_the_bounds)", rejected);
        let max_prefix = if cx.tier == Tier::Quick { 8 } else { 64 };
        let plen = match r.below(4) {
            0 => 0,
            1 => r.range(1, 2),
            _ => r.range(1, max_prefix),
        } as usize;
        let class = r.below(4);
        let prefix: Vec<u64> = (0..plen)
            .map(|i| match class {
                0 => 0,
                1 => u64::MAX,
                2 => {
                    if i % 2 == 0 {
                        u64::MAX
                    } else {
                        0
                    }
                }
                _ => *r.pick(&EXTREME),
            })
            .collect();
        let tail = r.next_u64();
        let mut rng = ScriptRng::new(prefix.clone(), tail);
        rng.budget = DRAW_BUDGET;
        out.evaluations += 1;
        if out.verbose {
            eprintln!("case {}: {:?} prefix {:x?} tail {}", cx.case, d, prefix, tail);
        }
        let wit = || json!({"dist": format!("{:?}", d), "rng_prefix": prefix.iter().map(|w| format!("{w:#x}")).collect::<Vec<_>>(), "rng_tail_seed": tail});
        // known finding: Binomial inversion that cannot terminate (see DESIGN.md)
        if let DistType::Binomial { trials, probability } = d.dist {
            // any of the words the consumers below may use as the uniform variate of an inversion
            let mut peek = rng.clone();
            peek.budget = u64::MAX;
            let predicted = (0..plen + 16).any(|_| {
                let u = (peek.next_u64() >> 11) as f64 / (1u64 << 53) as f64;
                binv_terminates(trials, probability, u) == Some(false)
            });
            if predicted {
                out.bump("binomial_inversion_predicted_nonterminating");
                let confirm_now = cx.only || (cx.shard == 0 && !cx.restarted && !self.confirmed);
                if confirm_now {
                    // run the real code on one such input per run to confirm the prediction
                    self.confirmed = true;
                    hb_tag("binomial-inversion-nonterminating");
                } else if self.skip_predicted {
                    out.bump("samples_skipped_(known_finding:_binomial_inversion_does_not_terminate)");
                    return;
                }
                let res = catch_unwind(AssertUnwindSafe(|| {
                    let mut v = 0.0;
                    for _ in 0..plen + 16 {
                        v = d.sample(&mut rng);
                    }
                    v
                }));
                hb_tag("");
                // it returned: the prediction does not hold on this tree, stop skipping
                self.skip_predicted = false;
                out.bump("predicted_nonterminating_samples_that_returned");
                if let Ok(v) = res {
                    if let Err(e) = in_range(&d, v) {
                        out.violation(format!("C13/out-of-range/{}", FAMILIES[fam]), e, wit());
                    }
                }
                return;
            }
        }
        let consumer = r.below(8);
        let res = catch_unwind(AssertUnwindSafe(|| -> Result<(), (String, String)> {
            match consumer {
                0 => {
                    // as timeout and duration and limit of an action inside a framework
                    let mut s0 = State::new(enum_map! { Event::NormalSent => vec![Trans(0, 1.0)], _ => vec![] });
                    s0.action = Some(Action::BlockOutgoing { bypass: false, replace: false, timeout: d, duration: d, limit: Some(d) });
                    let m = [Machine::new(u64::MAX, 0.0, u64::MAX, 0.0, vec![s0]).map_err(|e| ("C13/validated-dist-rejected-in-machine".to_string(), format!("{e}")))?];
                    let mut fw = Framework::new(&m[..], 0.0, 0.0, VClock(0), rng.clone()).map_err(|e| ("C13/framework-new".to_string(), format!("{e}")))?;
                    // a sample is at most max, hence the whole number it is used as is at most round(max)
                    let bound = if d.max > 0.0 { d.max.round() as u64 } else { u64::MAX };
                    let lim = fw.verif_snapshot().machines[0].state_limit;
                    if lim > bound {
                        return Err(("C13/used-value-over-max/limit".into(), format!("the state limit sampled from the distribution is {lim}, its max is {}", d.max)));
                    }
                    for i in 0..3 {
                        let acts = trigger(&mut fw, &[TriggerEvent::NormalSent], VClock(i));
                        for a in acts {
                            if a.timeout > 86_400_000_000 || a.duration > 86_400_000_000 {
                                return Err(("C13/consumer-over-one-day".into(), format!("{a:?}")));
                            }
                            if a.timeout > bound || a.duration > bound {
                                return Err(("C13/used-value-over-max/timeout-or-duration".into(), format!("{a:?} although the distribution's max is {}", d.max)));
                            }
                        }
                    }
                    if d.max > 0.0 {
                        out.bump("framework_consumers_with_a_max_checked_against_round(max)");
                    }
                    Ok(())
                }
                1 => {
                    let c = Counter::new_dist(Operation::Set, d);
                    let mut g = rng.clone();
                    let v = c.sample_value(&mut g);
                    let bound = if d.max > 0.0 { d.max.round() as u64 } else { u64::MAX };
                    if v > bound {
                        return Err(("C13/used-value-over-max/counter".into(), format!("the counter operand sampled from the distribution is {v}, its max is {}", d.max)));
                    }
                    Ok(())
                }
                _ => {
                    let mut g = rng.clone();
                    for _ in 0..3 {
                        let v = d.sample(&mut g);
                        in_range(&d, v).map_err(|e| (format!("C13/out-of-range/{}", FAMILIES[fam]), e))?;
                        if v == f64::INFINITY {
                            // within range only when no finite max is set (consumers clamp); counted
                            return Err(("inf".into(), String::new()));
                        }
                    }
                    Ok(())
                }
            }
        }));
        match res {
            Ok(Ok(())) => {}
            Ok(Err((sig, msg))) => {
                if sig == "inf" {
                    out.bump("samples_returning_+inf_without_finite_max_(consumers_clamp)");
                } else {
                    out.violation(sig, msg, wit());
                }
            }
            Err(_) => {
                let (msg, loc) = take_panic();
                if crate::is_harness_loc(&loc) && msg != DRAW_BUDGET_PANIC {
                    std::panic::resume_unwind(Box::new(format!("{msg} at {loc}")));
                }
                if msg == DRAW_BUDGET_PANIC {
                    out.violation(format!("C13/draw-budget-exceeded/{}", FAMILIES[fam]), format!("one sample consumed more than {DRAW_BUDGET} random words"), wit());
                } else {
                    out.violation(format!("C13/panic/{}/{}", FAMILIES[fam], panic_sig(&msg, &loc)), format!("{msg} at {loc}"), wit());
                }
            }
        }
        out.bump(&format!("samples_{}", FAMILIES[fam]));
        out.bump(match plen {
            0 => "samples_fair_stream",
            _ => match class {
                0 => "samples_prefix_all_zero",
                1 => "samples_prefix_all_one",
                2 => "samples_prefix_alternating",
                _ => "samples_prefix_mixed_extremes",
            },
        });
        out.bump(match consumer {
            0 => "consumer_framework_timeout_duration_limit",
            1 => "consumer_counter_value",
            _ => "consumer_direct_sample",
        });
        if plen > 0 {
            out.nontrivial(hash_of(&(format!("{:?}", d), &prefix)));
        }
        out.sample(|| wit());
    }
}
