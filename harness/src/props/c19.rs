//! C19 — seeded simulations are reproducible, total, and the output filters are pure projections.

use std::panic::{catch_unwind, AssertUnwindSafe};

use maybenot_simulator::verif::{take_action_log, take_fire_log};
use maybenot_simulator::{parse_trace, sim_advanced, SimEvent};
use serde_json::json;

use crate::props::sim::{fmt_ev, gen_case, is_tunnel, run_sim, SimCase, SimOutcome};
use crate::util::{hash_of, xo, Pick, Xo};
use crate::{panic_sig, take_panic, CaseCx, Out, Prop, Tier};

#[derive(Default)]
pub struct C19 {
    interleavings: std::collections::HashSet<u64>,
}

fn run_raw(c: &SimCase, sq: &mut maybenot_simulator::queue::SimQueue) -> Result<Vec<SimEvent>, (String, String, String)> {
    let args = c.args();
    let r = catch_unwind(AssertUnwindSafe(|| sim_advanced(&c.client, &c.server, sq, &args)));
    let _ = take_fire_log();
    let _ = take_action_log();
    match r {
        Ok(v) => Ok(v),
        Err(_) => {
            let (msg, loc) = take_panic();
            if crate::is_harness_loc(&loc) {
                std::panic::resume_unwind(Box::new(format!("{msg} at {loc}")));
            }
            let sig = panic_sig(&msg, &loc);
            Err((msg, loc, sig))
        }
    }
}

/// 33 000 - 45 000 lines, both directions, gaps of 20 us to 3 ms (well below any rate limit derived from it).
fn long_trace(r: &mut Xo) -> Vec<(u64, bool)> {
    let n = r.range(33_000, 45_000) as usize;
    let mut t = 0u64;
    let mut v = Vec::with_capacity(n);
    for _ in 0..n {
        v.push((t, r.chance(1, 2)));
        t += r.range(20, 3_000) * 1_000;
    }
    v
}

impl Prop for C19 {
    fn cases(&self, tier: Tier) -> u64 {
        match tier {
            Tier::Quick => 200_000,
            Tier::Thorough => 8_000_000,
        }
    }

    fn run_case(&mut self, cx: &CaseCx, out: &mut Out) {
        let mut r = xo(cx.seed);
        let max_lines = *r.pick(&[5, 20, 60]);
        let mut c = gen_case(&mut r, max_lines, &|_, _| {});
        c.pps = match r.below(10) {
            0 => Some(1),
            1 => Some(2),
            2 => Some(10),
            3 => Some(1000),
            4 => Some(u32::MAX as usize),
            5 => Some(1usize << 32),
            6 => Some(usize::MAX),
            7 => Some((1usize << 33) + 7),
            _ => None,
        };
        c.max_iter = *r.pick(&[1, 7, 100, 1000, 2500]);
        let long = cx.case % 65536 == 1;
        if long {
            // scale: a base trace of 33 000 - 45 000 packets without machines and without any bound of its own,
            // i.e. more than 2^17 recorded events in the unfiltered run
            c.lines = long_trace(&mut r);
            c.client.clear();
            c.server.clear();
            c.pps = None;
            c.max_iter = 0;
            c.max_trace_length = 0;
            c.trigger_delay_us = 0;
            out.bump("long_traces_(more_than_2^17_events_recorded)");
        }
        out.evaluations += 1;
        crate::hb_tag("c19-run");
        // (1) two runs from one parsed queue (cloned): identical
        let parsed = catch_unwind(AssertUnwindSafe(|| parse_trace(&c.trace_string(), c.network())));
        let Ok(sq0) = parsed else {
            let (msg, loc) = take_panic();
            out.violation(format!("C19/panic/{}", panic_sig(&msg, &loc)), format!("parse_trace: {msg} at {loc}"), c.to_json());
            return;
        };
        let base = sq0.get_first_time().unwrap();
        let mut sq1 = sq0.clone();
        let mut sq2 = sq0.clone();
        let u1 = match run_raw(&c, &mut sq1) {
            Ok(v) => v,
            Err((msg, loc, sig)) => {
                out.violation(format!("C19/panic/{sig}"), format!("{msg} at {loc}"), c.to_json());
                return;
            }
        };
        let u2 = match run_raw(&c, &mut sq2) {
            Ok(v) => v,
            Err((msg, loc, sig)) => {
                out.violation(format!("C19/panic/{sig}"), format!("second run: {msg} at {loc}"), c.to_json());
                return;
            }
        };
        if u1 != u2 {
            let i = u1.iter().zip(u2.iter()).position(|(a, b)| a != b).unwrap_or(u1.len().min(u2.len()));
            out.violation(
                "C19/not-reproducible",
                format!("two runs with the same seed differ at event #{i} ({} vs {} events)", u1.len(), u2.len()),
                c.to_json(),
            );
            return;
        }
        out.bump("run_pairs_compared");
        if c.max_iter > 0 && u1.len() > c.max_iter {
            out.violation("C19/iteration-bound-exceeded", format!("{} events returned with max_sim_iterations = {}", u1.len(), c.max_iter), c.to_json());
            return;
        }
        for w in u1.windows(2) {
            if w[1].time < w[0].time {
                out.violation("C19/time-backwards", "returned trace not ordered by time".to_string(), c.to_json());
                return;
            }
        }
        // (2) a run from a re-parsed trace: identical relative to the base
        match run_sim(&c) {
            SimOutcome::Ok(run) => {
                let rel1 = crate::props::sim::flatten(&u1, base).unwrap_or_default();
                if rel1 != run.events {
                    out.violation("C19/not-reproducible-after-reparse", "a run from a re-parsed trace differs from the first run".to_string(), c.to_json());
                    return;
                }
                let key = hash_of(&run.events.iter().map(|e| (crate::props::sim::ev_code(&e.event), e.client, e.padding)).collect::<Vec<_>>());
                self.interleavings.insert(key);
            }
            SimOutcome::Panic { msg, loc, sig } => {
                out.violation(format!("C19/panic/{sig}"), format!("{msg} at {loc}"), c.to_json());
                return;
            }
            SimOutcome::TimeBeforeStart(m) => {
                out.violation("C19/event-before-start", m, c.to_json());
                return;
            }
        }
        // (3) filters are projections; max_trace_length cuts a prefix
        for (oc, on) in [(true, false), (false, true), (true, true)] {
            let mut f = c.clone();
            f.only_client = oc;
            f.only_network = on;
            let mut sq = sq0.clone();
            let got = match run_raw(&f, &mut sq) {
                Ok(v) => v,
                Err((msg, loc, sig)) => {
                    out.violation(format!("C19/panic/{sig}"), format!("filtered run: {msg} at {loc}"), f.to_json());
                    return;
                }
            };
            let want: Vec<&SimEvent> = u1.iter().filter(|e| (!oc || e.client) && (!on || is_tunnel(&e.event))).collect();
            if got.len() != want.len() || got.iter().zip(want.iter()).any(|(a, b)| a != *b) {
                out.violation(
                    "C19/filter-not-a-projection",
                    format!("only_client_events={oc}, only_network_activity={on}: {} events returned, the projection of the unfiltered trace has {}", got.len(), want.len()),
                    f.to_json(),
                );
                return;
            }
            out.bump("filtered_runs_compared");
            if !want.is_empty() && r.chance(1, 2) {
                let l = r.range(1, want.len() as u64 + 2) as usize;
                let mut g = f.clone();
                g.max_trace_length = l;
                let mut sq = sq0.clone();
                match run_raw(&g, &mut sq) {
                    Ok(v) => {
                        if v.len() > l || v.len() < l.min(want.len()) || v.iter().zip(want.iter()).any(|(a, b)| a != *b) {
                            out.violation(
                                "C19/trace-length-bound",
                                format!("max_trace_length={l}: {} events returned, not the prefix of the projection ({} events)", v.len(), want.len()),
                                g.to_json(),
                            );
                            return;
                        }
                        out.bump("length_bounded_runs_compared");
                    }
                    Err((msg, loc, sig)) => {
                        out.violation(format!("C19/panic/{sig}"), format!("length-bounded run: {msg} at {loc}"), g.to_json());
                        return;
                    }
                }
            }
        }
        out.add("events_simulated", u1.len() as u64);
        if let Some(p) = c.pps {
            out.bump(if p > u32::MAX as usize { "runs_with_pps_above_u32" } else { "runs_with_explicit_pps" });
        }
        if u1.len() >= 2 {
            out.nontrivial(hash_of(&(c.trace_string(), c.delay_ns, c.seed, c.pps, c.max_iter, c.client.iter().chain(c.server.iter()).map(|m| m.serialize()).collect::<Vec<_>>())));
        }
        if !long {
        out.sample(|| json!({"case": c.to_json(), "returned": crate::props::sim::flatten(&u1, base).unwrap_or_default().iter().take(12).map(fmt_ev).collect::<Vec<_>>()}));
        }
    }

    fn finish(&mut self, out: &mut Out) {
        out.add("distinct_interleavings_per_shard", self.interleavings.len() as u64);
    }
}
