//! C04 — output contract: at most one well-formed action per machine per call.

use std::collections::HashSet;

use maybenot::constants::STATE_END;
use maybenot::Machine;
use serde_json::json;

use crate::drive::shape_of;
use crate::gen::{gen_frac, gen_machines, HCfg, MCfg};
use crate::props::fwmon::{run_scenario, witness, CallRec, Monitor, Scenario, Verdict};
use crate::util::{hash_of, xo, Pick, ScriptRng, VClock};
use crate::{CaseCx, Out, Prop, Tier};

#[derive(Default)]
pub struct C04 {}

const DAY: u64 = 86_400_000_000;

struct Obs<'a> {
    machines: &'a [Machine],
    /// machines seen moving to the end state in an earlier call (from the step log, independent of
    /// the snapshot)
    ended: Vec<bool>,
    shapes: Vec<HashSet<(u8, bool, bool, u8)>>,
    ended_calls: u64,
    clamped: u64,
}

impl<'a> Monitor for Obs<'a> {
    fn call(&mut self, rec: &CallRec<'_>, out: &mut Out) -> Verdict {
        let n = self.machines.len();
        let mut seen = vec![false; n];
        if n == 0 && !rec.acts.is_empty() {
            return Err(("C04/action-without-machines".into(), format!("{:?}", rec.acts)));
        }
        for a in rec.acts {
            if a.machine >= n {
                return Err(("C04/unknown-machine".into(), format!("action names machine {} of {n}: {a:?}", a.machine)));
            }
            if seen[a.machine] {
                return Err(("C04/two-actions-for-one-machine".into(), format!("{:?}", rec.acts)));
            }
            seen[a.machine] = true;
            if !self.shapes[a.machine].contains(&(a.kind, a.bypass, a.replace, a.timer)) {
                return Err((
                    "C04/shape-not-defined-by-machine".into(),
                    format!("{a:?} has (kind, bypass, replace, timer) that no state of machine {} defines: {:?}", a.machine, self.shapes[a.machine]),
                ));
            }
            if a.timeout > DAY || a.duration > DAY {
                return Err(("C04/over-one-day".into(), format!("{a:?}")));
            }
            if a.timeout == DAY || a.duration == DAY {
                self.clamped += 1;
                out.bump("actions_clamped_to_one_day");
            }
            if rec.before.machines[a.machine].current_state == STATE_END || self.ended[a.machine] {
                return Err((
                    "C04/action-after-end".into(),
                    format!("machine {} was in its end state before this call and yielded {a:?}", a.machine),
                ));
            }
            out.bump(match a.kind {
                0 => "actions_cancel",
                1 => "actions_padding",
                2 => "actions_blocking",
                _ => "actions_timer",
            });
            if a.bypass != a.replace {
                out.bump("actions_with_asymmetric_flags");
            }
        }
        for st in rec.log {
            if let maybenot::verif::Step::Sampled { machine, next: Some(t) } = st {
                if *t == STATE_END {
                    self.ended[*machine] = true;
                }
            }
        }
        for (mi, m) in rec.after.machines.iter().enumerate() {
            if self.ended[mi] && m.current_state != STATE_END {
                return Err(("C04/ended-machine-revived".into(), format!("machine {mi} moved to its end state earlier but is in state {} after this call", m.current_state)));
            }
        }
        let ended = rec.before.machines.iter().filter(|m| m.current_state == STATE_END).count() as u64;
        if ended > 0 {
            self.ended_calls += 1;
            out.bump("calls_with_a_machine_already_ended");
        }
        if rec.acts.len() >= 2 {
            out.bump("calls_returning_2+_actions");
        }
        Ok(())
    }
}

impl Prop for C04 {
    fn cases(&self, tier: Tier) -> u64 {
        match tier {
            Tier::Quick => 200_000,
            Tier::Thorough => 4_000_000,
        }
    }

    fn run_case(&mut self, cx: &CaseCx, out: &mut Out) {
        let mut r = xo(cx.seed);
        let mut cfg = MCfg::wild();
        cfg.action16 = 14;
        cfg.limit16 = 4;
        cfg.density16 = *r.pick(&[5, 8, 12]);
        cfg.allow_end = true;
        let machines = gen_machines(&mut r, &cfg, 0, 5);
        let wide = crate::gen::wide_width(&mut r, cx.case);
        let huge = wide.is_some_and(|w| w.0 > 65_535);
        let layout = wide.map_or(0, |w| w.1);
        let width = wide.map(|w| w.0);
        let machines = match width {
            // beyond 2^16 machines: small ones, or the line-up does not fit the worker's memory
            Some(w) if huge => {
                let mut small: Vec<Machine> = machines.into_iter().filter(|m| m.states.len() <= 3).take(2).collect();
                while small.is_empty() {
                    let mut c = cfg.clone();
                    c.max_states = 2;
                    small = gen_machines(&mut r, &c, 1, 2);
                }
                crate::gen::widen(small, w, layout)
            }
            Some(w) => crate::gen::widen(machines, w, layout),
            None => machines,
        };
        if machines.len() > 32 {
            out.bump(if huge { "cases_with_more_than_65536_machines" } else { "cases_with_more_than_32_machines" });
        }
        let pf = gen_frac(&mut r);
        let bf = gen_frac(&mut r);
        let rng_seed = rand_core::RngCore::next_u64(&mut r);
        let start = VClock(1 << 40);
        let h = HCfg {
            calls: if huge { r.range(5, 30) as usize } else { r.range(5, 200) as usize },
            max_batch: *r.pick(&[1, 2, 4, 8, 16]),
            empty: true,
            backwards: true,
            huge_steps: true,
            unknown_ids: true,
        };
        let shapes = machines
            .iter()
            .map(|m| m.states.iter().filter_map(|s| s.action.as_ref().map(shape_of)).collect())
            .collect();
        let mut mon = Obs {
            machines: &machines,
            ended: vec![false; machines.len()],
            shapes,
            ended_calls: 0,
            clamped: 0,
        };
        out.evaluations += 1;
        let sc = Scenario {
            machines: &machines,
            pf,
            bf,
            start,
            rng: ScriptRng::fair(rng_seed),
            h,
            max_time: u64::MAX,
            extra16: 0,
            script: None,
        };
        match run_scenario(sc, &mut r, &mut mon, out, |_, _| None) {
            Ok(s) => {
                out.add("calls", s.calls);
                out.add("actions_returned", s.actions);
                if s.actions > 0 && (mon.ended_calls > 0 || mon.clamped > 0) {
                    out.nontrivial(hash_of(&(machines.iter().take(8).map(|m| m.serialize()).collect::<Vec<_>>(), machines.len(), s.hist_hash)));
                }
                if machines.len() <= 8 {
                out.sample(|| {
                    json!({"machines": crate::drive::machines_json(&machines), "history_head": s.trace.iter().take(8).collect::<Vec<_>>(),
                           "actions": s.actions, "calls_with_ended_machine": mon.ended_calls, "clamped_to_one_day": mon.clamped})
                });
                }
            }
            Err((sig, msg, trace)) => out.violation(sig, msg, witness(&machines, pf, bf, rng_seed, start, &trace)),
        }
    }
}
