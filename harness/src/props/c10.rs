//! C10 — machines do not interfere. Differential execution: a deterministic machine run alone on
//! the projected history must return the same actions as when it runs among neighbours.

use maybenot::event::TriggerEvent;
use maybenot::verif::Step;
use maybenot::{Framework, Machine, MachineId};
use serde_json::json;

use crate::drive::{apply_step, machines_json, trigger, Act, EvGen, FwR};
use crate::gen::{fmt_events, gen_machine, gen_step, HCfg, MCfg};
use crate::props::c08;
use crate::util::{hash_of, xo, NoisyRng, Pick, VClock, Xo};
use crate::{CaseCx, Out, Prop, Tier};

#[derive(Default)]
pub struct C10 {}

fn det_cfg(r: &mut Xo) -> MCfg {
    let mut c = MCfg::det();
    c.allow_signal = false;
    c.action16 = 12;
    c.limit16 = 8;
    c.density16 = *r.pick(&[5, 8, 12]);
    c.allow_end = r.chance(1, 3);
    c.budgets = r.chance(1, 2);
    c.max_states = 4;
    c
}

fn project(e: &TriggerEvent, p: usize) -> TriggerEvent {
    let map = |m: &MachineId| {
        if m.into_raw() == p {
            MachineId::from_raw(0)
        } else {
            MachineId::from_raw(7)
        }
    };
    match e {
        TriggerEvent::PaddingSent { machine } => TriggerEvent::PaddingSent { machine: map(machine) },
        TriggerEvent::BlockingBegin { machine } => TriggerEvent::BlockingBegin { machine: map(machine) },
        TriggerEvent::TimerBegin { machine } => TriggerEvent::TimerBegin { machine: map(machine) },
        TriggerEvent::TimerEnd { machine } => TriggerEvent::TimerEnd { machine: map(machine) },
        other => other.clone(),
    }
}

impl Prop for C10 {
    fn cases(&self, tier: Tier) -> u64 {
        match tier {
            Tier::Quick => 300_000,
            Tier::Thorough => 6_000_000,
        }
    }

    fn run_case(&mut self, cx: &CaseCx, out: &mut Out) {
        let mut r = xo(cx.seed);
        let n = r.range(2, 4) as usize;
        let mut machines: Vec<Machine> = (0..n)
            .map(|_| {
                let c = det_cfg(&mut r);
                let mut m = gen_machine(&mut r, &c);
                if r.chance(1, 2) {
                    boost_det_counters(&mut r, &mut m);
                }
                m
            })
            .collect();
        if r.chance(1, 3) {
            // identical neighbours: they do the same thing at the same moment
            let k = r.below(n as u64) as usize;
            let twin = machines[k].clone();
            machines.push(twin);
        }
        // wide line-ups (1 case in 128): the same machines repeated up to 33..300 positions; every position is
        // compared with its solo run
        if r.chance(1, 128) {
            let w = *r.pick(&[32usize, 33, 40, 64, 65, 100, 200]);
            let layout = r.below(3);
            machines = crate::gen::widen(machines, w, layout);
            out.bump("cases_with_more_than_32_machines");
        }
        let n = machines.len();
        let rng_seed = rand_core::RngCore::next_u64(&mut r);
        let start = VClock(1 << 40);
        let h = HCfg {
            calls: if n > 32 { r.range(10, 60) as usize } else { r.range(10, 150) as usize },
            max_batch: *r.pick(&[1, 1, 2, 4, 8]),
            empty: true,
            backwards: true,
            huge_steps: false,
            unknown_ids: true,
        };
        out.evaluations += 1;
        // the random streams are salted with extreme words and differ between the combined and the solo
        // runs: with deterministic sampling no random word may matter
        let mut combined: FwR<'_, NoisyRng> = match Framework::new(&machines[..], 0.0, 0.0, start, NoisyRng::new(rng_seed)) {
            Ok(f) => f,
            Err(e) => {
                out.violation("C10/construction", format!("{e}"), json!({"machines": machines_json(&machines)}));
                return;
            }
        };
        let solos: Vec<Vec<Machine>> = machines.iter().map(|m| vec![m.clone()]).collect();
        let mut solo: Vec<FwR<'_, NoisyRng>> = solos
            .iter()
            .enumerate()
            .map(|(i, v)| Framework::new(&v[..], 0.0, 0.0, start, NoisyRng::new(rng_seed ^ (0x55 + i as u64))).unwrap())
            .collect();
        let mut eg = EvGen::default();
        let mut now = start;
        let mut trace: Vec<String> = vec![];
        let mut busy_calls = 0u64;
        let mut hist = 0u64;
        for ci in 0..h.calls {
            let events = eg.next_batch(&mut r, n, &h);
            now = apply_step(now, gen_step(&mut r, &h));
            if trace.len() < 300 {
                trace.push(format!("t={} [{}]", now.0, fmt_events(&events)));
            }
            hist = hash_of(&(hist, now.0, &events));
            let acts = trigger(&mut combined, &events, now);
            // machines that did something non-trivial in this call
            let mut active = std::collections::BTreeSet::new();
            for s in combined.verif_log() {
                match s {
                    Step::Scheduled { machine, .. } | Step::Withdrawn { machine } => {
                        active.insert(*machine);
                    }
                    Step::Deliver { machine, event, .. } if crate::props::fwmon::is_internal(*event) => {
                        active.insert(*machine);
                    }
                    _ => {}
                }
            }
            if active.len() >= 2 {
                busy_calls += 1;
                out.bump("combined_calls_with_2+_machines_active");
            }
            for p in 0..n {
                let proj: Vec<TriggerEvent> = events.iter().map(|e| project(e, p)).collect();
                let sacts = trigger(&mut solo[p], &proj, now);
                let mine: Vec<Act> = acts
                    .iter()
                    .filter(|a| a.machine == p)
                    .map(|a| {
                        let mut a = a.clone();
                        a.machine = 0;
                        a
                    })
                    .collect();
                if mine != sacts {
                    out.violation(
                        "C10/diverged",
                        format!(
                            "call #{ci} (t={}, events [{}]): machine at position {p} returned {mine:?} among its neighbours but {sacts:?} alone on the projected history [{}]",
                            now.0, fmt_events(&events), fmt_events(&proj)
                        ),
                        json!({"machines": machines_json(&machines), "position": p, "start": start.0,
                               "history_tail": trace.iter().rev().take(14).rev().collect::<Vec<_>>()}),
                    );
                    return;
                }
            }
            eg.observe(&acts);
        }
        out.add("calls", h.calls as u64);
        out.add("solo_comparisons", (h.calls * n) as u64);
        if busy_calls > 0 {
            out.nontrivial(hash_of(&(machines.iter().take(8).map(|m| m.serialize()).collect::<Vec<_>>(), n, hist)));
        }
        if n <= 8 {
            out.sample(|| json!({"machines": machines_json(&machines), "history_head": trace.iter().take(8).collect::<Vec<_>>(), "calls_with_2+_machines_active": busy_calls}));
        }
        let _ = c08::C08::default;
    }
}

fn boost_det_counters(r: &mut Xo, m: &mut Machine) {
    use maybenot::counter::{Counter, Operation};
    for s in m.states.iter_mut() {
        for which in 0..2 {
            if r.chance(8, 16) {
                let op = *r.pick(&[Operation::Increment, Operation::Decrement, Operation::Decrement, Operation::Set]);
                let c = match r.below(3) {
                    0 => Counter::new(op),
                    1 => Counter::new_copy(op),
                    _ => Counter::new_dist(op, crate::gen::constant(*r.pick(&[0.0, 1.0, 1.0, 2.0, 3.0]))),
                };
                if which == 0 {
                    s.counter.0 = Some(c);
                } else {
                    s.counter.1 = Some(c);
                }
            }
        }
    }
}
