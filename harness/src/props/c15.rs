//! C15 — the simulator conserves packets and respects network causality.

use serde_json::json;

use crate::props::sim::{check_conservation, fmt_ev, gen_case, run_sim, SimOutcome};
use crate::util::{hash_of, xo, Pick};
use crate::{CaseCx, Out, Prop, Tier};

#[derive(Default)]
pub struct C15 {}

impl Prop for C15 {
    fn cases(&self, tier: Tier) -> u64 {
        match tier {
            Tier::Quick => 400_000,
            Tier::Thorough => 16_000_000,
        }
    }

    fn run_case(&mut self, cx: &CaseCx, out: &mut Out) {
        let mut r = xo(cx.seed);
        let max_lines = *r.pick(&[5, 20, 60]);
        let mut c = gen_case(&mut r, max_lines, &|_, _| {});
        if r.chance(1, 3) {
            // hand-shaped blocking / bypass / replace machines: queued packets get re-labelled and released
            let n = r.range(1, 3);
            let ms: Vec<_> = (0..n).map(|_| crate::props::c16::directed_machine(&mut r, 16)).collect();
            if r.chance(1, 2) {
                c.client = ms;
            } else {
                c.server = ms;
            }
        }
        out.evaluations += 1;
        match run_sim(&c) {
            SimOutcome::Panic { msg, loc, sig } => out.violation(format!("C15/panic/{sig}"), format!("{msg} at {loc}"), c.to_json()),
            SimOutcome::TimeBeforeStart(m) => out.violation("C15/event-before-start", m, c.to_json()),
            SimOutcome::Ok(run) => match check_conservation(&c, &run) {
                Err((sig, msg)) => {
                    let mut w = c.to_json();
                    w["returned_head"] = json!(run.events.iter().take(60).map(fmt_ev).collect::<Vec<_>>());
                    out.violation(sig, msg, w);
                }
                Ok(st) => {
                    out.add("events_checked", run.events.len() as u64);
                    out.add("padding_packets_received_by_peer", st.padding_received);
                    out.add("normal_packets_received", st.normal_received);
                    out.add("normal_packets_relabelled_by_replace", st.relabelled_normal);
                    out.add("packets_delayed_beyond_the_network_delay", st.delayed_beyond_network);
                    if st.padding_received > 0 {
                        out.bump("runs_with_padding_received_by_peer");
                    }
                    if st.relabelled_normal > 0 {
                        out.bump("runs_with_replace_relabelling_a_queued_normal_packet");
                    }
                    if st.runs_natural_end {
                        out.bump("runs_that_ended_by_themselves");
                    } else {
                        out.bump("runs_cut_by_iteration_bound");
                    }
                    if st.delayed_beyond_network > 0 {
                        out.bump("runs_with_packets_delayed_beyond_network_delay");
                    }
                    if run.raw.iter().any(|e| e.debug_note.as_deref().map(|n| !n.starts_with("agg. delay 0ns @c, 0ns @s")).unwrap_or(false)) {
                        out.bump("runs_with_aggregate_delay");
                    }
                    if st.padding_received > 0 || st.relabelled_normal > 0 {
                        out.nontrivial(hash_of(&(c.trace_string(), c.delay_ns, c.seed, c.client.iter().chain(c.server.iter()).map(|m| m.serialize()).collect::<Vec<_>>())));
                    }
                    out.sample(|| json!({"case": c.to_json(), "returned": run.events.iter().take(16).map(fmt_ev).collect::<Vec<_>>()}));
                }
            },
        }
    }
}
