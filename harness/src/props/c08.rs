//! C08 — counters saturate and raise CounterZero exactly on reaching zero from non-zero. A
//! per-machine monitor over the step log (hook H1), independent of the reference semantics: every
//! counter update is bracketed by two observations (the operand step and the next delivery /
//! snapshot).

use maybenot::constants::{STATE_END, STATE_SIGNAL};
use maybenot::counter::{Counter, Operation};
use maybenot::event::{Event, TriggerEvent};
use maybenot::verif::Step;
use maybenot::Machine;
use serde_json::json;

use crate::gen::{constant, gen_machine, HCfg, MCfg};
use crate::props::fwmon::{run_scenario, witness, CallRec, Monitor, Scenario, Verdict};
use crate::refsem::in_support;
use crate::util::{hash_of, xo, Pick, ScriptRng, VClock, Xo};
use crate::{CaseCx, Out, Prop, Tier};

#[derive(Default)]
pub struct C08 {}

struct Obs<'a> {
    machines: &'a [Machine],
    state: Vec<usize>,
    a: Vec<u64>,
    b: Vec<u64>,
    crossings: u64,
}

fn v(sig: &str, msg: String) -> Verdict {
    Err((format!("C08/{sig}"), msg))
}

fn apply(op: Operation, old: u64, x: u64) -> u64 {
    match op {
        Operation::Increment => old.saturating_add(x),
        Operation::Decrement => old.saturating_sub(x),
        Operation::Set => x,
    }
}

fn check_operand(c: &Counter, x: u64, other_old: u64) -> Result<(), String> {
    if c.copy {
        if x != other_old {
            return Err(format!("copy operand is {x} but the other counter held {other_old} before the transition"));
        }
    } else if let Some(d) = &c.dist {
        if !in_support(d, x, f64::INFINITY, false) {
            return Err(format!("sampled operand {x} outside the support of {d:?}"));
        }
    } else if x != 1 {
        return Err(format!("operand {x} where the value 1 is prescribed"));
    }
    Ok(())
}

impl<'a> Obs<'a> {
    /// Precedence at the end of a transition chain of machine `m`: with no budgets configured (this
    /// workload) an entered state's action is allowed iff it is a Cancel or the stay's limit is
    /// positive; the innermost allowed one (i.e. the one scheduled by the latest CounterZero
    /// transition) must be the one scheduled, and one must be scheduled if any is allowed.
    fn finish_chain(&self, m: usize, frames: &[(usize, u64)], scheduled: Option<usize>, out: &mut Out) -> Verdict {
        if frames.is_empty() {
            return Ok(());
        }
        let mut expected = None;
        for (st, lim) in frames.iter().rev() {
            if let Some(a) = self.machines[m].states[*st].action.as_ref() {
                let cancel = matches!(a, maybenot::action::Action::Cancel { .. });
                if cancel || *lim > 0 {
                    expected = Some(*st);
                    break;
                }
            }
        }
        if expected != scheduled {
            let sig = if scheduled.is_none() { "entered-action-dropped" } else { "wrong-action-scheduled" };
            return v(
                sig,
                format!("machine {m}: transition chain entered states (state, limit) {frames:?}; the action scheduled is that of state {scheduled:?}, precedence prescribes {expected:?}"),
            );
        }
        if frames.len() > 1 && expected.is_some() {
            out.bump("chains_with_counter_zero_and_precedence_decided");
        }
        Ok(())
    }
}

impl<'a> Monitor for Obs<'a> {
    fn call(&mut self, rec: &CallRec<'_>, out: &mut Out) -> Verdict {
        let n = self.machines.len();
        let log = rec.log;
        let mut permits = vec![(true, true); n];
        // per machine: number of Scheduled steps in the current chain (a chain = one non-CounterZero
        // delivery and the CounterZero deliveries nested in it), and the entered states of the chain
        let mut chain_sched = vec![0usize; n];
        let mut chain_frames: Vec<Vec<(usize, u64)>> = vec![vec![]; n];
        let mut chain_scheduled: Vec<Option<usize>> = vec![None; n];
        let mut limit: Vec<u64> = rec.before.machines.iter().map(|m| m.state_limit).collect();
        let mut zero_machines_this_call = std::collections::HashSet::new();
        let mut i = 0usize;
        while i < log.len() {
            match &log[i] {
                Step::Deliver {
                    machine,
                    event,
                    from_state,
                    counter_a,
                    counter_b,
                    state_limit,
                } => {
                    let m = *machine;
                    limit[m] = *state_limit;
                    if *counter_a != self.a[m] || *counter_b != self.b[m] || *from_state != self.state[m] {
                        return v(
                            "counter-value",
                            format!(
                                "at Deliver({event:?}) machine {m} has (state {from_state}, A {counter_a}, B {counter_b}); by the rules: (state {}, A {}, B {})",
                                self.state[m], self.a[m], self.b[m]
                            ),
                        );
                    }
                    if *event == Event::CounterZero {
                        return v("counter-zero-spurious", format!("CounterZero delivered to machine {m} without one of its counters reaching zero from non-zero just before"));
                    }
                    self.finish_chain(m, &chain_frames[m], chain_scheduled[m], out)?;
                    chain_sched[m] = 0;
                    chain_frames[m].clear();
                    chain_scheduled[m] = None;
                }
                Step::Sampled { machine, next } => {
                    let m = *machine;
                    match next {
                        Some(s) if *s == STATE_END => self.state[m] = STATE_END,
                        Some(s) if *s == STATE_SIGNAL => {}
                        Some(s) => {
                            self.state[m] = *s;
                            let mut j = i + 1;
                            if let Some(Step::Limit { machine: lm, limit: l }) = log.get(j) {
                                if *lm == m {
                                    limit[m] = *l;
                                    j += 1;
                                }
                            }
                            chain_frames[m].push((*s, limit[m]));
                            // the counter updates of the entered state: A then B
                            let spec = self.machines[m].states[*s].counter;
                            let old_a = self.a[m];
                            let old_b = self.b[m];
                            let mut crossed = false;
                            for (is_b, c) in [(false, spec.0), (true, spec.1)] {
                                let Some(c) = c else { continue };
                                let x = match log.get(j) {
                                    Some(Step::CounterOperand { machine: cm, counter_b, value }) if *cm == m && *counter_b == is_b => *value,
                                    other => {
                                        return v(
                                            "counter-update-missing",
                                            format!("machine {m} entered state {s} which updates counter {}, but the log continues with {other:?}", if is_b { "B" } else { "A" }),
                                        )
                                    }
                                };
                                j += 1;
                                let (old, other_old) = if is_b { (old_b, old_a) } else { (old_a, old_b) };
                                if let Err(e) = check_operand(&c, x, other_old) {
                                    return v("counter-operand", format!("machine {m} entering state {s}, counter {}: {e}", if is_b { "B" } else { "A" }));
                                }
                                let new = apply(c.operation, old, x);
                                out.bump("counter_updates");
                                if c.copy {
                                    out.bump("copy_updates");
                                    if old_a != old_b {
                                        out.bump("copy_updates_with_differing_registers");
                                    }
                                }
                                if c.operation == Operation::Increment && old.checked_add(x).is_none() {
                                    out.bump("saturations_at_max");
                                }
                                if c.operation == Operation::Decrement && x > old {
                                    out.bump("saturations_at_zero");
                                }
                                if new == u64::MAX {
                                    out.bump("updates_resulting_in_u64_max");
                                }
                                if is_b {
                                    self.b[m] = new;
                                } else {
                                    self.a[m] = new;
                                }
                                if old != 0 && new == 0 {
                                    let p = if is_b { &mut permits[m].1 } else { &mut permits[m].0 };
                                    if *p {
                                        *p = false;
                                        crossed = true;
                                    } else {
                                        out.bump("zero_crossings_after_permit_spent");
                                    }
                                }
                            }
                            if matches!(log.get(j), Some(Step::CounterOperand { machine: cm, .. }) if *cm == m) {
                                return v("counter-update-spurious", format!("machine {m} entered state {s}: more counter updates than the state prescribes"));
                            }
                            let next_is_cz = matches!(log.get(j), Some(Step::Deliver { machine: dm, event: Event::CounterZero, .. }) if *dm == m);
                            if crossed {
                                self.crossings += 1;
                                out.bump("zero_crossings_with_permit");
                                zero_machines_this_call.insert(m);
                                if spec.0.is_some() && spec.1.is_some() && self.a[m] == 0 && self.b[m] == 0 && old_a != 0 && old_b != 0 {
                                    out.bump("both_counters_zeroed_in_one_update");
                                }
                                if !next_is_cz {
                                    return v(
                                        "counter-zero-missing",
                                        format!(
                                            "machine {m} entered state {s}: counters went (A {old_a}, B {old_b}) -> (A {}, B {}), a counter reached zero from non-zero for the first time in this call, but CounterZero was not delivered before anything else (log continues with {:?})",
                                            self.a[m], self.b[m], log.get(j)
                                        ),
                                    );
                                }
                                // consume the Deliver here after checking the values it shows
                                if let Some(Step::Deliver { counter_a, counter_b, from_state, .. }) = log.get(j) {
                                    if *counter_a != self.a[m] || *counter_b != self.b[m] || *from_state != *s {
                                        return v("counter-value", format!("CounterZero delivery to machine {m} shows (state {from_state}, A {counter_a}, B {counter_b}); by the rules (state {s}, A {}, B {})", self.a[m], self.b[m]));
                                    }
                                }
                                i = j; // the Deliver(CounterZero); its Sampled comes next
                            } else {
                                if next_is_cz {
                                    return v("counter-zero-spurious", format!("CounterZero delivered to machine {m} although no counter reached zero from non-zero with an unspent permit (A {old_a}->{}, B {old_b}->{})", self.a[m], self.b[m]));
                                }
                                i = j - 1;
                            }
                        }
                        None => {}
                    }
                }
                Step::Scheduled { machine, state } => {
                    let m = *machine;
                    chain_sched[m] += 1;
                    if chain_sched[m] > 1 {
                        return v(
                            "entered-action-overrode-counterzero-action",
                            format!("machine {m}: a second action (state {state}) was scheduled in one transition chain although the CounterZero transition had already scheduled one"),
                        );
                    }
                    // the deepest frame that has an action must be the one scheduled when actions are
                    // unconditionally allowed (Cancel); otherwise just evidence
                    chain_scheduled[m] = Some(*state);
                    if chain_frames[m].len() > 1 {
                        out.bump("scheduled_in_a_chain_with_counter_zero");
                        if chain_frames[m].last().map(|f| f.0) == Some(*state) {
                            out.bump("counter_zero_action_took_precedence");
                        } else {
                            out.bump("entered_state_action_scheduled_after_counter_zero_scheduled_nothing");
                        }
                    }
                }
                Step::CounterOperand { machine, .. } => {
                    return v("counter-update-spurious", format!("counter of machine {machine} updated outside of entering a state"));
                }
                Step::Limit { .. } | Step::Withdrawn { .. } | Step::SignalRound => {}
            }
            i += 1;
        }
        for m in 0..n {
            self.finish_chain(m, &chain_frames[m], chain_scheduled[m], out)?;
        }
        if zero_machines_this_call.len() >= 2 {
            out.bump("calls_in_which_2+_machines_crossed_zero");
        }
        for m in 0..n {
            let s = &rec.after.machines[m];
            if s.counter_a != self.a[m] || s.counter_b != self.b[m] {
                return v(
                    "counter-value",
                    format!("after the call machine {m} has (A {}, B {}); by the rules (A {}, B {})", s.counter_a, s.counter_b, self.a[m], self.b[m]),
                );
            }
        }
        Ok(())
    }
}

fn counter_cfg(r: &mut Xo) -> MCfg {
    let mut c = MCfg::wild();
    c.action16 = *r.pick(&[6, 12]);
    c.limit16 = 3;
    c.density16 = *r.pick(&[5, 8, 11]);
    c.allow_end = r.chance(1, 4);
    c.budgets = false;
    c.max_states = 5;
    c
}

/// boost counters: every state gets counter specs with high probability, values forced around
/// 0, 1, 2 and u64::MAX
fn boost_counters(r: &mut Xo, m: &mut Machine) {
    for s in m.states.iter_mut() {
        for which in 0..2 {
            if r.chance(9, 16) {
                let op = *r.pick(&[Operation::Increment, Operation::Decrement, Operation::Decrement, Operation::Set]);
                let c = match r.below(4) {
                    0 => Counter::new(op),
                    1 => Counter::new_copy(op),
                    2 => Counter::new_dist(op, constant(*r.pick(&[0.0, 1.0, 1.0, 2.0, 3.0, 1.8446744073709552e19, 1.8446744073709550e19, 9.3e18]))),
                    _ => Counter::new_dist(
                        op,
                        maybenot::dist::Dist::new(maybenot::dist::DistType::Uniform { low: 0.0, high: *r.pick(&[2.0, 3.0, 4.0]) }, 0.0, 0.0),
                    ),
                };
                if which == 0 {
                    s.counter.0 = Some(c);
                } else {
                    s.counter.1 = Some(c);
                }
            }
        }
    }
}

/// NormalRecv: counter += 1; NormalSent: counter -= 1 (reaches zero: CounterZero leads to a padding state);
/// TunnelRecv: back to the start.
fn period_probe(use_b: bool) -> Machine {
    use maybenot::action::Action;
    use maybenot::counter::{Counter, Operation};
    use maybenot::event::Event;
    use maybenot::state::{State, Trans};
    let mut s0 = State::new(enum_map::enum_map! { Event::NormalRecv => vec![Trans(1, 1.0)], _ => vec![] });
    let _ = &mut s0;
    let mut s1 = State::new(enum_map::enum_map! { Event::NormalSent => vec![Trans(2, 1.0)], _ => vec![] });
    let mut s2 = State::new(enum_map::enum_map! { Event::CounterZero => vec![Trans(3, 1.0)], Event::TunnelRecv => vec![Trans(0, 1.0)], _ => vec![] });
    let mut s3 = State::new(enum_map::enum_map! { Event::TunnelRecv => vec![Trans(0, 1.0)], _ => vec![] });
    s3.action = Some(Action::SendPadding { bypass: false, replace: false, timeout: crate::gen::constant(7.0), limit: None });
    let inc = Counter::new(Operation::Increment);
    let dec = Counter::new(Operation::Decrement);
    if use_b {
        s1.counter = (None, Some(inc));
        s2.counter = (None, Some(dec));
    } else {
        s1.counter = (Some(inc), None);
        s2.counter = (Some(dec), None);
    }
    Machine::new(1 << 40, 0.0, 0, 0.0, vec![s0, s1, s2, s3]).expect("the probe is valid")
}

impl Prop for C08 {
    fn cases(&self, tier: Tier) -> u64 {
        match tier {
            Tier::Quick => 300_000,
            Tier::Thorough => 6_000_000,
        }
    }

    fn run_case(&mut self, cx: &CaseCx, out: &mut Out) {
        let mut r = xo(cx.seed);
        let n = r.range(1, 4) as usize;
        let twins = r.chance(1, 6);
        let mut machines: Vec<Machine> = (0..n)
            .map(|_| {
                let c = counter_cfg(&mut r);
                let mut m = gen_machine(&mut r, &c);
                boost_counters(&mut r, &mut m);
                m
            })
            .collect();
        if twins {
            // identical machines cross zero on the same event
            let m0 = machines[0].clone();
            machines.push(m0);
        }
        // scale (two cases per 65536): a probe machine whose counter is zeroed in calls that are exactly 2^8 and
        // 2^16 calls apart, or for the first time in call number 2^16 of the instance, with idle calls in between
        let period_case = matches!(cx.case % 65536, 1 | 2);
        let use_b = cx.case % 65536 == 2;
        if period_case {
            machines = vec![period_probe(use_b)];
            out.bump("long_histories_with_zero_crossings_2^16_calls_apart");
        }
        // consecutive crossings 2^8 and then 2^16 calls apart; with counter B the first one in call number 2^16
        let zero_calls: Vec<usize> = if use_b { vec![65_535, 65_535 + 256, 65_535 + 256 + 65_536] } else { vec![2, 2 + 256, 2 + 256 + 65_536] };
        let script = move |i: usize, _: &[crate::drive::Act]| -> Vec<TriggerEvent> {
            // the crossing happens in call index z (NormalSent), prepared in call z-1 (NormalRecv), undone in z+1
            if zero_calls.contains(&(i + 1)) {
                vec![TriggerEvent::NormalRecv]
            } else if zero_calls.contains(&i) {
                vec![TriggerEvent::NormalSent]
            } else if i > 0 && zero_calls.contains(&(i - 1)) {
                vec![TriggerEvent::TunnelRecv]
            } else if i % 7 == 0 {
                vec![TriggerEvent::TunnelSent]
            } else {
                vec![]
            }
        };
        let rng_seed = rand_core::RngCore::next_u64(&mut r);
        let start = VClock(1 << 40);
        let h = HCfg {
            calls: if period_case { 65_535 + 256 + 65_536 + 3 } else { r.range(10, 200) as usize },
            max_batch: *r.pick(&[1, 1, 2, 4, 8]),
            empty: true,
            backwards: false,
            huge_steps: false,
            unknown_ids: true,
        };
        let nm = machines.len();
        let mut mon = Obs {
            machines: &machines,
            state: vec![0; nm],
            a: vec![0; nm],
            b: vec![0; nm],
            crossings: 0,
        };
        out.evaluations += 1;
        let sc = Scenario {
            machines: &machines,
            pf: 0.0,
            bf: 0.0,
            start,
            rng: ScriptRng::fair(rng_seed),
            h,
            max_time: u64::MAX,
            extra16: 0,
            script: if period_case { Some(&script) } else { None },
        };
        match run_scenario(sc, &mut r, &mut mon, out, |_, _| None) {
            Ok(s) => {
                out.add("calls", s.calls);
                if period_case {
                    out.add("zero_crossings_in_long_histories", mon.crossings);
                }
                if mon.crossings > 0 {
                    out.nontrivial(hash_of(&(machines.iter().map(|m| m.serialize()).collect::<Vec<_>>(), s.hist_hash)));
                }
                out.sample(|| {
                    json!({"machines": crate::drive::machines_json(&machines), "history_head": s.trace.iter().take(8).collect::<Vec<_>>(),
                           "zero_crossings": mon.crossings})
                });
            }
            Err((sig, msg, trace)) => out.violation(sig, msg, witness(&machines, 0.0, 0.0, rng_seed, start, &trace)),
        }
    }
}
