//! C14 — the simulator without machines reproduces the input trace exactly.

use serde_json::json;

use crate::props::sim::{check_baseline, fmt_ev, gen_delay, gen_trace, run_sim, SimCase, SimOutcome};
use crate::util::{hash_of, xo, Pick};
use crate::{CaseCx, Out, Prop, Tier};

#[derive(Default)]
pub struct C14 {}

impl Prop for C14 {
    fn cases(&self, tier: Tier) -> u64 {
        match tier {
            Tier::Quick => 500_000,
            Tier::Thorough => 20_000_000,
        }
    }

    fn run_case(&mut self, cx: &CaseCx, out: &mut Out) {
        let mut r = xo(cx.seed);
        let max_lines = *r.pick(&[3, 10, 40, 120]);
        let mut lines = gen_trace(&mut r, max_lines);
        let dense = cx.case % 65536 == 1;
        if dense {
            // scale: more than 2^16 packets from one side within one second (the rate limit the simulator derives
            // from the trace itself must let the trace through untouched), then a sparse tail
            let n = r.range(66_000, 74_000) as usize;
            let gap = r.range(9, 13) * 1_000;
            let both = r.chance(1, 3);
            lines = (0..n as u64).map(|i| (i * gap, !both || i % 8 != 0)).collect();
            let mut t = n as u64 * gap + 2_000_000_000;
            for _ in 0..20 {
                lines.push((t, r.chance(1, 2)));
                t += r.range(1, 50) * 1_000_000;
            }
            out.bump("dense_traces_(more_than_2^16_packets_from_one_side_within_one_second)");
        }
        let use_sim_fn = r.chance(1, 3);
        let c = SimCase {
            lines,
            delay_ns: gen_delay(&mut r),
            pps: None,
            client: vec![],
            server: vec![],
            max_iter: 0,
            max_trace_length: 0,
            cont: r.chance(1, 2) && !use_sim_fn,
            only_client: r.chance(1, 2) && !use_sim_fn,
            only_network: r.chance(1, 2),
            fracs: [0.0; 4],
            seed: 1,
            use_sim_fn,
            trigger_delay_us: 0,
            layered: false,
        };
        out.evaluations += 1;
        match run_sim(&c) {
            SimOutcome::Panic { msg, loc, sig } => out.violation(format!("C14/panic/{sig}"), format!("{msg} at {loc}"), c.to_json()),
            SimOutcome::TimeBeforeStart(m) => out.violation("C14/event-before-start", m, c.to_json()),
            SimOutcome::Ok(run) => {
                if let Err((sig, msg)) = check_baseline(&c, &run) {
                    let mut w = c.to_json();
                    w["returned_head"] = json!(run.events.iter().take(40).map(fmt_ev).collect::<Vec<_>>());
                    out.violation(sig, msg, w);
                    return;
                }
                out.add("events_checked", run.events.len() as u64);
                out.bump(if use_sim_fn { "runs_via_sim" } else { "runs_via_sim_advanced" });
                out.bump(&format!("runs_filter_client={}_network={}", c.only_client, c.only_network));
                if c.delay_ns == 0 {
                    out.bump("runs_with_zero_delay");
                }
                // bursts of >= 3 identical stamps; client and server events coinciding
                let mut burst = false;
                for w in c.lines.windows(3) {
                    if w[0].0 == w[1].0 && w[1].0 == w[2].0 {
                        burst = true;
                    }
                }
                if burst {
                    out.bump("traces_with_burst_of_3+_identical_stamps");
                }
                let coincide = run.events.windows(2).any(|w| w[0].t == w[1].t && w[0].client != w[1].client);
                if coincide {
                    out.bump("runs_with_client_and_server_event_at_same_instant");
                }
                if c.lines.len() >= 2 {
                    out.nontrivial(hash_of(&(&c.lines, c.delay_ns, c.only_client, c.only_network, use_sim_fn)));
                }
                if !dense {
                    out.sample(|| json!({"case": c.to_json(), "returned": run.events.iter().take(12).map(fmt_ev).collect::<Vec<_>>()}));
                }
            }
        }
    }
}
