//! Offline checker over (returned event trace, hook action log, hook fire log) for the simulator's
//! handling of blocking (C16), action timers (C17) and internal timers (C18). One pass over the
//! merged timeline; every violation is tagged with the property whose clause it breaks.
//!
//! The action log is the boundary between the framework and the simulator (what the framework
//! asked for); the event trace is what the simulator reported; the fire log says which timer the
//! simulator expired when — it removes the ambiguity between same-instant firings and is itself
//! validated against the boundary (a firing must be that of the pending action / running timer).

use std::collections::BTreeMap;

use maybenot::event::TriggerEvent;
use maybenot::{Timer, TriggerAction};
use maybenot_simulator::verif::Fired;

use crate::props::sim::{fmt_window, SimCase, SimRun};

#[derive(Clone, Debug)]
pub struct Viol {
    pub prop: u8,
    pub sig: String,
    pub msg: String,
    pub index: usize,
}

#[derive(Clone, Debug, PartialEq)]
struct Pending {
    kind: u8, // 1 padding, 2 blocking
    due: u64,
    duration: u64,
    bypass: bool,
    replace: bool,
}

#[derive(Clone, Debug)]
struct Blk {
    until: u64,
    bypass_ok: bool,
    last_updater_bypass: bool,
    /// started while idle by an action with zero duration
    zero_started: bool,
    started_by_replace: bool,
}

/// An action the simulator has fired (taken out of its timer slot) whose PaddingSent / BlockingBegin
/// has not been reported yet.
#[derive(Clone, Debug)]
struct Fe {
    p: Pending,
    /// blocking was active on some side when it was fired
    blocking_at_fire: bool,
    /// the simulator fired another action before it had processed a single further event
    fired_in_a_batch: bool,
    /// it was fired at the very instant at which active blocking was due to expire, before that
    /// BlockingEnd was reported (an expiry goes first: its BlockingEnd may supersede the action)
    fired_at_a_due_expiry: bool,
    /// a newer action or a Cancel of the action timer was returned for the machine afterwards, at this time
    overtaken_at: Option<u64>,
}

/// A newer action (or a Cancel of the action timer) for machine `m` was returned at time `ta`: whatever
/// the simulator has fired for that machine but not yet reported is superseded by it.
fn overtake(s: &mut Side, m: usize, ta: u64, _any_blocking: bool) {
    if m < s.firedq.len() {
        for f in s.firedq[m].iter_mut() {
            if f.overtaken_at.is_none() {
                f.overtaken_at = Some(ta);
            }
        }
    }
}

struct Side {
    pend: Vec<Option<Pending>>,
    firedq: Vec<Vec<Fe>>,
    timer: Vec<Option<u64>>,
    /// (expiry, blocking active on some side when it expired, a Cancel / superseding UpdateTimer was returned at)
    timer_firedq: Vec<Vec<(u64, bool, Option<u64>)>>,
    begin_expect: Vec<Vec<u64>>,
    blk: Option<Blk>,
    /// C16 cannot be evaluated until the next BlockingEnd (a begin could not be linked to its action)
    blk_unknown: bool,
    tokens: Vec<bool>,
    /// the simulator was seen applying a block action before it was due (known finding K3)
    premature: bool,
}

impl Side {
    fn new(n: usize) -> Self {
        Side {
            pend: vec![None; n],
            firedq: vec![vec![]; n],
            timer: vec![None; n],
            timer_firedq: vec![vec![]; n],
            begin_expect: vec![vec![]; n],
            blk: None,
            blk_unknown: false,
            tokens: vec![],
            premature: false,
        }
    }
}

fn ns(d: &std::time::Duration) -> u64 {
    d.as_nanos().min(u64::MAX as u128) as u64
}

fn pending_of(a: &TriggerAction, due: u64) -> Option<(usize, Pending)> {
    match a {
        TriggerAction::SendPadding { bypass, replace, machine, .. } => Some((machine.into_raw(), Pending { kind: 1, due, duration: 0, bypass: *bypass, replace: *replace })),
        TriggerAction::BlockOutgoing { duration, bypass, replace, machine, .. } => {
            Some((machine.into_raw(), Pending { kind: 2, due, duration: ns(duration), bypass: *bypass, replace: *replace }))
        }
        _ => None,
    }
}

pub type Stats = BTreeMap<&'static str, u64>;

pub fn check_timeline(c: &SimCase, run: &SimRun) -> (Vec<Viol>, Stats) {
    let ev = &run.events;
    let mut viols: Vec<Viol> = vec![];
    let mut st: Stats = BTreeMap::new();
    let mut bump = |k: &'static str| *st.entry(k).or_insert(0) += 1;
    let mut sides = [Side::new(c.server.len()), Side::new(c.client.len())]; // index by client as usize
    let mut ai = 0usize;
    let mut fi = 0usize;
    let acts = &run.actions;
    let fires = &run.fires;
    let side_name = |cl: bool| if cl { "client" } else { "server" };
    macro_rules! viol {
        ($p:expr, $sig:expr, $i:expr, $($arg:tt)*) => {
            viols.push(Viol { prop: $p, sig: $sig.to_string(), msg: format!("{} | trace around: {:?}", format!($($arg)*), fmt_window(ev, $i, 6, 4)), index: $i })
        };
    }
    for (i, e) in ev.iter().enumerate() {
        let t = e.t;
        // A. what the simulator fired before this event
        while fi < fires.len() && fires[fi].events_seen <= i {
            let f = &fires[fi];
            fi += 1;
            let any_blocking_now = sides.iter().any(|s| s.blk.is_some() || s.blk_unknown || s.premature || s.firedq.iter().flatten().any(|f| f.p.kind == 2));
            let expiry_due_now = sides.iter().any(|s| !s.blk_unknown && !s.premature && s.blk.as_ref().map_or(false, |b| b.until == f.t && !b.zero_started) && !s.firedq.iter().flatten().any(|x| x.p.kind == 2));
            let s = &mut sides[f.client as usize];
            match &f.fired {
                Fired::Action(a) => match pending_of(a, f.t) {
                    None => viol!(17, "C17/fired-non-timer-action", i, "the simulator fired {a:?}"),
                    Some((m, p)) => {
                        if m < s.pend.len() && s.pend[m].as_ref() == Some(&p) {
                            s.pend[m] = None;
                            bump("actions_fired_when_due");
                        } else {
                            let pd = if m < s.pend.len() { format!("{:?}", s.pend[m]) } else { "unknown machine".into() };
                            viol!(17, "C17/fired-action-is-not-the-pending-one", i, "{} machine {m}: the simulator fired {p:?} at t={}, the most recent action of the framework that is still pending is {pd}", side_name(f.client), f.t);
                        }
                        if p.kind == 2 && f.t > t {
                            // the blocking state of this action was applied although an earlier event is
                            // still to be processed
                            s.premature = true;
                            bump("block_actions_applied_before_an_earlier_event");
                        }
                        if m < s.firedq.len() {
                            let batch = (fi >= 2 && matches!(fires[fi - 2].fired, Fired::Action(_)) && fires[fi - 2].events_seen == f.events_seen)
                                || (fi < fires.len() && matches!(fires[fi].fired, Fired::Action(_)) && fires[fi].events_seen == f.events_seen);
                            s.firedq[m].push(Fe { p, blocking_at_fire: any_blocking_now, fired_in_a_batch: batch, fired_at_a_due_expiry: expiry_due_now, overtaken_at: None });
                        }
                    }
                },
                Fired::InternalTimer { machine } => {
                    let m = machine.into_raw();
                    if m < s.timer.len() && s.timer[m] == Some(f.t) {
                        s.timer[m] = None;
                        s.timer_firedq[m].push((f.t, any_blocking_now, None));
                    } else {
                        let cur = if m < s.timer.len() { format!("{:?}", s.timer[m]) } else { "unknown machine".into() };
                        viol!(18, "C18/timer-expired-but-not-running", i, "{} machine {m}: the simulator expired an internal timer at t={}, by the UpdateTimer contract the timer is {cur}", side_name(f.client), f.t);
                        if m < s.timer_firedq.len() {
                            s.timer_firedq[m].push((f.t, any_blocking_now, None));
                        }
                    }
                }
            }
        }
        // B. simulated time moved on: everything that was due earlier must have happened
        for cl in [false, true] {
            let s = &mut sides[cl as usize];
            for m in 0..s.pend.len() {
                if let Some(p) = &s.pend[m] {
                    if p.due < t {
                        viol!(17, "C17/action-not-fired-when-due", i, "{} machine {m}: {} due at t={} was neither fired nor superseded, simulated time is now {t}", side_name(cl), if p.kind == 1 { "SendPadding" } else { "BlockOutgoing" }, p.due);
                        s.pend[m] = None;
                    }
                }
                if let Some(pos) = s.firedq[m].iter().position(|f| f.p.due < t) {
                    let p = s.firedq[m].remove(pos).p;
                    viol!(17, "C17/fired-but-not-reported", i, "{} machine {m}: action {p:?} was fired but no {} was reported at t={}", side_name(cl), if p.kind == 1 { "PaddingSent" } else { "BlockingBegin" }, p.due);
                    s.firedq[m].retain(|f| f.p.due >= t);
                }
                if let Some(x) = s.timer[m] {
                    if x < t {
                        viol!(18, "C18/timer-end-missing", i, "{} machine {m}: internal timer expired at t={x} without TimerEnd, simulated time is now {t}", side_name(cl));
                        s.timer[m] = None;
                    }
                }
                if let Some(pos) = s.timer_firedq[m].iter().position(|x| x.0 < t) {
                    let x = s.timer_firedq[m][pos].0;
                    viol!(18, "C18/timer-end-missing", i, "{} machine {m}: internal timer expired at t={x} without TimerEnd, simulated time is now {t}", side_name(cl));
                    s.timer_firedq[m].retain(|x| x.0 >= t);
                }
                if let Some(pos) = s.begin_expect[m].iter().position(|x| *x < t) {
                    let x = s.begin_expect[m][pos];
                    viol!(18, "C18/timer-begin-missing", i, "{} machine {m}: UpdateTimer at t={x} set the timer but no TimerBegin was reported at that instant", side_name(cl));
                    s.begin_expect[m].retain(|x| *x >= t);
                }
            }
            if let Some(b) = &s.blk {
                if b.until < t && !s.blk_unknown {
                    let sig = if b.zero_started {
                        if b.started_by_replace {
                            "C16/blocking-end-missing/zero-duration-block-started-idle-replace"
                        } else {
                            "C16/blocking-end-missing/zero-duration-block-started-idle"
                        }
                    } else if s.premature {
                        "C16/blocking-end-missing/after-premature-block-application"
                    } else {
                        "C16/blocking-end-missing"
                    };
                    viol!(16, sig, i, "{}: blocking expired at t={} without BlockingEnd, simulated time is now {t}", side_name(cl), b.until);
                    s.blk = None;
                }
            }
        }
        // C. the event itself
        let s = &mut sides[e.client as usize];
        match &e.event {
            TriggerEvent::PaddingSent { machine } | TriggerEvent::BlockingBegin { machine } => {
                let m = machine.into_raw();
                let kind = if matches!(e.event, TriggerEvent::PaddingSent { .. }) { 1u8 } else { 2 };
                let mut linked: Option<Pending> = None;
                if m < s.firedq.len() {
                    if let Some(pos) = s.firedq[m].iter().position(|f| f.p.kind == kind && f.p.due == t) {
                        let fe = s.firedq[m].remove(pos);
                        if let Some(at) = fe.overtaken_at {
                            // the property: a newer action or a Cancel supersedes the pending one, which then never fires
                            let when = if at < fe.p.due { "before-it-was-due" } else { "at-the-instant-it-was-due" };
                            // a block takes effect when the simulator fires it (known finding K3), so what its own
                            // effect releases or ends can be reported before its BlockingBegin
                            let ctx = if fe.fired_at_a_due_expiry && fe.p.kind == 1 {
                                // never seen on the unchanged tree: a due blocking expiry is reported before an action of that instant fires
                                "fired-ahead-of-a-blocking-expiry-due-at-that-instant"
                            } else if fe.fired_in_a_batch {
                                // never seen on the unchanged tree: the event of one firing is processed before the next firing
                                "several-actions-fired-before-any-of-their-events"
                            } else if fe.p.kind == 2 {
                                "block-applied-when-fired"
                            } else if fe.blocking_at_fire {
                                "padding-fired-while-blocking-was-active"
                            } else {
                                "no-blocking-involved"
                            };
                            bump("superseded_or_cancelled_actions_reported_nevertheless");
                            viols.push(Viol {
                                prop: 17,
                                sig: format!("C17/superseded-action-still-reported/{when}/{ctx}"),
                                msg: format!(
                                    "{} machine {m}: {} at t={t} stems from {:?}, but a newer action or a Cancel of the action timer was returned for that machine at t={at}, before this report | trace around: {:?}",
                                    side_name(e.client),
                                    if kind == 1 { "PaddingSent" } else { "BlockingBegin" },
                                    fe.p,
                                    fmt_window(ev, i, 8, 3)
                                ),
                                index: i,
                            });
                        }
                        linked = Some(fe.p);
                    }
                }
                match &linked {
                    None => {
                        let pd = if m < s.pend.len() { format!("{:?}", s.pend[m]) } else { "unknown machine".into() };
                        viol!(17, "C17/fire-without-scheduled-action", i, "{} machine {m}: {} at t={t} is not the firing of an action of that kind due at that time (pending: {pd})", side_name(e.client), if kind == 1 { "PaddingSent" } else { "BlockingBegin" });
                        if kind == 2 {
                            s.blk_unknown = true;
                        }
                    }
                    Some(p) => {
                        bump("fired_actions_reported");
                        if kind == 1 {
                            if (p.bypass, p.replace) != (e.bypass, e.replace) {
                                viol!(17, "C17/padding-flags-differ-from-action", i, "{} machine {m}: padding sent with (bypass {}, replace {}), the action said (bypass {}, replace {})", side_name(e.client), e.bypass, e.replace, p.bypass, p.replace);
                            }
                        } else if !s.blk_unknown {
                            let new_until = t.saturating_add(p.duration);
                            if p.duration == 0 {
                                bump("blocks_with_zero_duration");
                            }
                            match s.blk.as_mut() {
                                None => {
                                    bump("blocks_started");
                                    s.blk = Some(Blk {
                                        until: new_until,
                                        bypass_ok: p.bypass,
                                        last_updater_bypass: p.bypass,
                                        zero_started: p.duration == 0,
                                        started_by_replace: p.replace,
                                    });
                                }
                                Some(b) => {
                                    if p.replace || new_until > b.until {
                                        b.until = new_until;
                                        b.bypass_ok = b.bypass_ok && p.bypass;
                                        b.last_updater_bypass = p.bypass;
                                        b.zero_started = false;
                                        bump(match (p.replace, p.bypass) {
                                            (true, true) => "block_updates_replace_bypass",
                                            (true, false) => "block_updates_replace_nobypass",
                                            (false, true) => "block_updates_longer_bypass",
                                            (false, false) => "block_updates_longer_nobypass",
                                        });
                                    } else {
                                        bump("block_actions_shorter_not_replacing");
                                    }
                                }
                            }
                        }
                    }
                }
                if kind == 1 && e.bypass {
                    s.tokens.push(e.replace);
                }
            }
            TriggerEvent::BlockingEnd => {
                if s.blk_unknown {
                    s.blk_unknown = false;
                    s.blk = None;
                } else {
                    // a zero-duration block fired at this very instant whose begin is not yet processed: the
                    // simulator reports the end before the begin
                    let zero_pending = s.firedq.iter().flatten().any(|f| f.p.kind == 2 && f.p.due == t && f.p.duration == 0);
                    match s.blk.take() {
                        None => {
                            let sig = if zero_pending {
                                "C16/blocking-end-before-begin/zero-duration-block"
                            } else if s.premature {
                                "C16/blocking-end-while-idle/after-premature-block-application"
                            } else {
                                "C16/blocking-end-while-idle"
                            };
                            viol!(16, sig, i, "{}: BlockingEnd at t={t} while no blocking had begun", side_name(e.client));
                        }
                        Some(b) => {
                            if b.until != t {
                                let sig = if zero_pending {
                                    "C16/blocking-end-before-begin/zero-duration-block"
                                } else if s.premature {
                                    "C16/blocking-end-at-wrong-time/after-premature-block-application"
                                } else {
                                    "C16/blocking-end-at-wrong-time"
                                };
                                viol!(16, sig, i, "{}: BlockingEnd at t={t}, the blocking was to expire at t={}", side_name(e.client), b.until);
                            } else {
                                bump("blocks_ended_at_expiry");
                            }
                        }
                    }
                }
            }
            TriggerEvent::TunnelSent => {
                let mut token_ok = true;
                if e.bypass {
                    // a padding consumes any token, a normal packet one minted by a replace padding
                    let pos = if e.padding { if s.tokens.is_empty() { None } else { Some(0) } } else { s.tokens.iter().position(|r| *r) };
                    match pos {
                        Some(p) => {
                            s.tokens.remove(p);
                        }
                        None => token_ok = false,
                    }
                }
                if let Some(b) = &s.blk {
                    if !s.blk_unknown && t < b.until {
                        bump("tunnel_sent_judged_during_blocking");
                        let legit = b.bypass_ok && e.bypass && token_ok;
                        if legit {
                            bump("bypass_escapes_accepted");
                            if !e.padding {
                                bump("bypass_escapes_of_replaced_normal_packet");
                            }
                        } else {
                            // a block allowing bypass has fired at this very instant (its begin is concurrent)
                            let concurrent_bypass_block = s.firedq.iter().flatten().any(|f| f.p.kind == 2 && f.p.bypass && f.p.due == t);
                            let sig = if e.bypass && token_ok && !b.bypass_ok {
                                if b.last_updater_bypass || concurrent_bypass_block {
                                    "C16/bypass-escape/earlier-updater-forbade-bypass"
                                } else if s.firedq.iter().flatten().any(|f| f.p.kind == 2 && f.p.bypass && f.p.due > t) {
                                    // the simulator has already applied a bypass-allowing block that is only due later
                                    "C16/bypass-escape/bypass-block-applied-before-due"
                                } else if s.premature {
                                    "C16/bypass-escape/after-premature-block-application"
                                } else {
                                    "C16/bypass-escape/blocking-not-bypassable"
                                }
                            } else if e.bypass && !token_ok {
                                "C16/bypass-flag-without-bypass-padding"
                            } else if s.premature {
                                "C16/sent-while-blocked/after-premature-block-application"
                            } else {
                                "C16/sent-while-blocked"
                            };
                            viol!(16, sig, i, "{}: a {} packet (bypass flag {}) left at t={t} while blocking is active until t={} (every updater allowed bypass: {})", side_name(e.client), if e.padding { "padding" } else { "normal" }, e.bypass, b.until, b.bypass_ok);
                        }
                    }
                }
            }
            TriggerEvent::TimerBegin { machine } => {
                let m = machine.into_raw();
                if m < s.timer.len() {
                    if let Some(pos) = s.begin_expect[m].iter().position(|x| *x == t) {
                        s.begin_expect[m].remove(pos);
                        bump("timer_begins_matched");
                    } else {
                        viol!(18, "C18/timer-begin-unexpected", i, "{} machine {m}: TimerBegin at t={t} does not follow an UpdateTimer at that instant that set or changed the timer", side_name(e.client));
                    }
                } else {
                    viol!(18, "C18/timer-begin-unexpected", i, "TimerBegin for unknown machine {m}");
                }
            }
            TriggerEvent::TimerEnd { machine } => {
                let m = machine.into_raw();
                if m < s.timer.len() {
                    if let Some(pos) = s.timer_firedq[m].iter().position(|x| x.0 == t) {
                        let (_, blocking_at_fire, overtaken_at) = s.timer_firedq[m].remove(pos);
                        bump("timers_ended_at_expiry");
                        if let Some(at) = overtaken_at {
                            let when = if at < t { "before-its-expiry" } else { "at-the-instant-of-its-expiry" };
                            let ctx = if blocking_at_fire { "expired-while-blocking-was-active" } else { "no-blocking-involved" };
                            bump("cancelled_or_superseded_timers_ended_nevertheless");
                            viols.push(Viol {
                                prop: 18,
                                sig: format!("C18/cancelled-or-superseded-timer-still-ended/{when}/{ctx}"),
                                msg: format!(
                                    "{} machine {m}: TimerEnd at t={t}, but a Cancel of the internal timer or an UpdateTimer that sets it anew was returned for that machine at t={at}, before this report | trace around: {:?}",
                                    side_name(e.client),
                                    fmt_window(ev, i, 8, 3)
                                ),
                                index: i,
                            });
                        }
                    } else {
                        viol!(18, "C18/timer-end-unexpected", i, "{} machine {m}: TimerEnd at t={t}, but no timer of that machine expired then (running timer by the UpdateTimer contract: {:?})", side_name(e.client), s.timer[m]);
                    }
                } else {
                    viol!(18, "C18/timer-end-unexpected", i, "TimerEnd for unknown machine {m}");
                }
            }
            _ => {}
        }
        // D. the actions the framework returned for this event
        while ai < acts.len() && acts[ai].event_index == i {
            let a = &acts[ai];
            ai += 1;
            let any_blocking = sides.iter().any(|s| s.blk.is_some() || s.blk_unknown || s.premature);
            let s = &mut sides[a.client as usize];
            let ta = a.t;
            if a.client != e.client || ta != t {
                viol!(17, "C17/action-log-misaligned", i, "action {:?} logged for event #{i} on the other side or at another time", a.action);
            }
            match &a.action {
                TriggerAction::SendPadding { timeout, machine, .. } | TriggerAction::BlockOutgoing { timeout, machine, .. } => {
                    let m = machine.into_raw();
                    let due = ta.saturating_add(ns(timeout));
                    overtake(s, m, ta, any_blocking);
                    if let Some(old) = s.pend[m].take() {
                        bump("actions_superseded");
                        if old.due == ta {
                            bump("actions_superseded_at_the_instant_they_were_due");
                        }
                    }
                    if ns(timeout) == 0 {
                        bump("actions_with_zero_timeout");
                    }
                    s.pend[m] = pending_of(&a.action, due).map(|x| x.1);
                }
                TriggerAction::Cancel { machine, timer } => {
                    let m = machine.into_raw();
                    if matches!(timer, Timer::Action | Timer::All) {
                        overtake(s, m, ta, any_blocking);
                    }
                    if matches!(timer, Timer::Action | Timer::All) && s.pend[m].take().is_some() {
                        bump("actions_cancelled");
                    }
                    if matches!(timer, Timer::Internal | Timer::All) {
                        for x in s.timer_firedq[m].iter_mut() {
                            if x.2.is_none() {
                                x.2 = Some(ta);
                            }
                        }
                    }
                    if matches!(timer, Timer::Internal | Timer::All) && s.timer[m].take().is_some() {
                        bump("timers_cancelled");
                    }
                }
                TriggerAction::UpdateTimer { duration, replace, machine } => {
                    let m = machine.into_raw();
                    let d = ns(duration);
                    let new = ta.saturating_add(d);
                    let cur = s.timer[m];
                    if d == 0 {
                        bump("timer_updates_with_zero_duration");
                    }
                    if cur == Some(ta) {
                        bump("timer_updates_at_the_instant_of_expiry");
                    }
                    let sets = *replace || cur.is_none() || new > cur.unwrap();
                    if sets {
                        for x in s.timer_firedq[m].iter_mut() {
                            if x.2.is_none() {
                                x.2 = Some(ta);
                            }
                        }
                        if cur.is_some() {
                            bump("timers_superseded");
                        } else {
                            bump("timers_started");
                        }
                        s.timer[m] = Some(new);
                        s.begin_expect[m].push(ta);
                    } else {
                        bump("timer_updates_shorter_not_replacing");
                    }
                }
            }
        }
    }
    // E. the run ended because nothing at all was left to do (it was told to go on after the last normal
    // packet and stopped short of every bound): whatever was pending must have happened
    if c.cont && c.max_trace_length == 0 && ev.len() < c.max_iter && !c.only_client && !c.only_network {
        let i = ev.len().saturating_sub(1);
        bump("runs_that_ended_with_nothing_left_to_do");
        for cl in [false, true] {
            let s = &sides[cl as usize];
            for m in 0..s.pend.len() {
                if let Some(p) = &s.pend[m] {
                    viol!(17, "C17/action-not-fired-when-due/run-ended-with-it-pending", i, "{} machine {m}: the run ended with nothing left to simulate ({} events, bound {}) although {} due at t={} was neither fired nor superseded", side_name(cl), ev.len(), c.max_iter, if p.kind == 1 { "SendPadding" } else { "BlockOutgoing" }, p.due);
                }
                if let Some(f) = s.firedq[m].first() {
                    viol!(17, "C17/fired-but-not-reported/run-ended", i, "{} machine {m}: the run ended although the fired action {:?} was never reported", side_name(cl), f.p);
                }
                if s.timer[m].is_some() || !s.timer_firedq[m].is_empty() {
                    viol!(18, "C18/timer-end-missing/run-ended-with-the-timer-running", i, "{} machine {m}: the run ended with nothing left to simulate ({} events, bound {}) although the internal timer (expiry {:?}) had neither ended nor been cancelled", side_name(cl), ev.len(), c.max_iter, s.timer[m].or(s.timer_firedq[m].first().map(|x| x.0)));
                }
            }
            if let Some(b) = &s.blk {
                if !s.blk_unknown && !b.zero_started && !s.premature {
                    viol!(16, "C16/blocking-end-missing/run-ended-while-blocking", i, "{}: the run ended with nothing left to simulate although blocking until t={} was never ended", side_name(cl), b.until);
                }
            }
        }
    }
    (viols, st)
}
