//! C07 — per-state limits. A trace specification over the step log (hook H1), checked per machine
//! and independent of the reference semantics: the monitor only tracks (state, remaining limit).

use maybenot::action::Action;
use maybenot::constants::{STATE_END, STATE_SIGNAL};
use maybenot::event::Event;
use maybenot::verif::Step;
use maybenot::Machine;
use serde_json::json;

use crate::gen::{constant, gen_machine, HCfg, MCfg};
use crate::props::fwmon::{is_internal, run_scenario, top_level_deliveries, witness, CallRec, Monitor, Scenario, Verdict};
use crate::refsem::{has_limit, in_support, limit_dist};
use crate::util::{hash_of, xo, Pick, ScriptRng, VClock, Xo};
use crate::{CaseCx, Out, Prop, Tier};

#[derive(Default)]
pub struct C07 {}

#[derive(Clone, Debug)]
struct Track {
    state: usize,
    limit: u64,
}

struct Obs<'a> {
    machines: &'a [Machine],
    t: Vec<Track>,
    stays_reaching_zero: u64,
    reentries: u64,
}

fn limitable(a: &Action) -> bool {
    !matches!(a, Action::Cancel { .. })
}

fn v(sig: &str, msg: String) -> Verdict {
    Err((format!("C07/{sig}"), msg))
}

impl<'a> Obs<'a> {
    /// Attribute `Scheduled` steps to frames. Called at log position `j`, right after the counter
    /// operands of the innermost frame of machine `m`, or right after a nested CounterZero delivery
    /// that entered no state.
    fn resolve_frames(&self, m: usize, mut j: usize, log: &[Step], frames: &mut [Vec<(usize, u64)>]) -> Verdict {
        loop {
            if matches!(log.get(j), Some(Step::Deliver { machine, event: Event::CounterZero, .. }) if *machine == m) {
                return Ok(()); // the innermost frame waits for the nested delivery
            }
            let Some((state, entry_limit)) = frames[m].pop() else {
                return Ok(());
            };
            if matches!(log.get(j), Some(Step::Scheduled { machine, state: st }) if *machine == m && *st == state) {
                if let Some(a) = self.machines[m].states[state].action.as_ref() {
                    if limitable(a) && entry_limit == 0 {
                        // the same state may have been entered by an outer frame of this chain with a
                        // positive limit (left and re-entered through CounterZero): the step is then the
                        // outer frame's, whose stay allowed it
                        if frames[m].iter().any(|(s, l)| *s == state && *l > 0) {
                            continue;
                        }
                        return v(
                            "action-with-limit-zero",
                            format!("machine {m} entered state {state} with remaining limit 0 and its action was scheduled"),
                        );
                    }
                }
                j += 1;
            }
        }
    }
}

impl<'a> Monitor for Obs<'a> {
    fn start(&mut self, machines: &[Machine], _pf: f64, _bf: f64, _s: VClock, init: &[Step]) -> Verdict {
        for (mi, m) in machines.iter().enumerate() {
            let Some(Step::Limit { machine, limit }) = init.get(mi) else {
                return v("initial-limit-not-observed", format!("machine {mi}"));
            };
            if *machine != mi {
                return v("initial-limit-not-observed", format!("machine {mi}"));
            }
            if let Some(d) = m.states[0].action.as_ref().and_then(limit_dist) {
                if !in_support(d, *limit, f64::INFINITY, true) {
                    return v("limit-outside-support", format!("machine {mi} starts with limit {limit}, distribution {d:?}"));
                }
            }
            self.t.push(Track { state: 0, limit: *limit });
        }
        Ok(())
    }

    fn call(&mut self, rec: &CallRec<'_>, out: &mut Out) -> Verdict {
        let n = self.machines.len();
        let expected = top_level_deliveries(rec.events, n);
        let mut next_top = 0usize;
        // the own-completion whose consequences are being watched: (machine, changed, ended)
        let mut open: Option<(usize, bool)> = None;
        let log = rec.log;
        let mut i = 0usize;
        // per machine: frames (entered state, limit at entry) awaiting their scheduling decision
        let mut frames: Vec<Vec<(usize, u64)>> = vec![vec![]; n];
        // per machine: a CounterZero was just delivered and its Sampled step is next
        let mut cz_pending = vec![false; n];
        // closes a completion window: applies the decrement and demands Withdrawn + LimitReached
        // when the limit hits zero. Returns how many log entries (0 or 2) it consumed.
        macro_rules! close_window {
            ($i:expr) => {{
                if let Some((m, changed)) = open.take() {
                    let tr = &mut self.t[m];
                    if !changed && tr.state != STATE_END {
                        let before = tr.limit;
                        if tr.limit > 0 {
                            tr.limit -= 1;
                            out.bump("own_completions_decrementing");
                        } else {
                            out.bump("own_completions_at_limit_zero");
                        }
                        let act = self.machines[m].states[tr.state].action.as_ref();
                        let must = tr.limit == 0 && act.map(has_limit).unwrap_or(false);
                        let got_w = matches!(log.get($i), Some(Step::Withdrawn { machine }) if *machine == m);
                        if must {
                            let got_lr = matches!(log.get($i + 1), Some(Step::Deliver { machine, event: Event::LimitReached, .. }) if *machine == m);
                            if !got_w || !got_lr {
                                return v(
                                    "limit-reached-missing",
                                    format!("machine {m} in state {} completed its action with remaining limit {before}: expected the pending action to be withdrawn and LimitReached raised, log continues with {:?}", tr.state, log.get($i)),
                                );
                            }
                            if before > 0 {
                                self.stays_reaching_zero += 1;
                                out.bump("stays_that_reached_limit_zero");
                            }
                        } else if got_w {
                            return v(
                                "spurious-limit-reached",
                                format!("machine {m} in state {} (remaining limit {}) had its action withdrawn without its limit being reached", tr.state, tr.limit),
                            );
                        }
                    } else {
                        out.bump("own_completions_with_state_change");
                        if matches!(log.get($i), Some(Step::Withdrawn { machine }) if *machine == m) {
                            return v("spurious-limit-reached", format!("machine {m} changed state on its completion but its action was withdrawn"));
                        }
                    }
                }
            }};
        }
        while i < log.len() {
            match &log[i] {
                Step::Deliver {
                    machine,
                    event,
                    from_state,
                    state_limit,
                    ..
                } => {
                    let m = *machine;
                    if !is_internal(*event) {
                        close_window!(i);
                        // alignment with the inputs
                        match expected.get(next_top) {
                            Some((em, ee, own)) if *em == m && *ee == *event => {
                                if *own {
                                    open = Some((m, false));
                                } else if matches!(event, Event::PaddingSent | Event::BlockingBegin | Event::TimerBegin) {
                                    out.bump("completions_of_other_machines_observed");
                                }
                            }
                            other => {
                                return v("unexpected-delivery", format!("log has Deliver({event:?}) to machine {m}, inputs prescribe {other:?}"));
                            }
                        }
                        next_top += 1;
                    } else if *event == Event::Signal {
                        close_window!(i);
                    }
                    if *event == Event::CounterZero {
                        cz_pending[m] = true;
                    } else {
                        frames[m].clear();
                    }
                    let tr = &self.t[m];
                    if *from_state != tr.state || *state_limit != tr.limit {
                        return v(
                            "limit-changed-unexpectedly",
                            format!(
                                "at Deliver({event:?}) machine {m} is in state {from_state} with remaining limit {state_limit}; by the rules it should be in state {} with limit {}",
                                tr.state, tr.limit
                            ),
                        );
                    }
                }
                Step::Sampled { machine, next } => {
                    let m = *machine;
                    if let Some(s) = next {
                        if *s == STATE_END {
                            self.t[m].state = STATE_END;
                            if let Some((om, ch)) = open.as_mut() {
                                if *om == m {
                                    *ch = true;
                                }
                            }
                        } else if *s == STATE_SIGNAL {
                        } else if *s != self.t[m].state {
                            // entering from another state: the limit must be resampled right now
                            let old_limit = self.t[m].limit;
                            self.t[m].state = *s;
                            if let Some((om, ch)) = open.as_mut() {
                                if *om == m {
                                    *ch = true;
                                }
                            }
                            match log.get(i + 1) {
                                Some(Step::Limit { machine: lm, limit }) if *lm == m => {
                                    let act = self.machines[m].states[*s].action.as_ref();
                                    match act.and_then(limit_dist) {
                                        Some(d) => {
                                            if !in_support(d, *limit, f64::INFINITY, true) {
                                                return v("limit-outside-support", format!("machine {m} entered state {s} with limit {limit}, distribution {d:?}"));
                                            }
                                            if *limit == 0 {
                                                out.bump("entries_with_sampled_limit_zero");
                                            }
                                        }
                                        None => {
                                            if *limit != u64::MAX {
                                                return v("limit-outside-support", format!("machine {m} entered state {s} (no limit) with limit {limit}"));
                                            }
                                        }
                                    }
                                    self.t[m].limit = *limit;
                                    self.reentries += 1;
                                    out.bump("entries_from_another_state");
                                    let _ = old_limit;
                                    i += 1;
                                }
                                other => {
                                    return v("limit-not-resampled", format!("machine {m} entered state {s} from another state but no limit was sampled (log: {other:?})"));
                                }
                            }
                        } else {
                            out.bump("self_transitions");
                            if matches!(log.get(i + 1), Some(Step::Limit { machine: lm, .. }) if *lm == m) {
                                return v("limit-refreshed-by-self-transition", format!("machine {m} self-transition in state {s} resampled the limit"));
                            }
                        }
                        // scheduling decisions: a frame per entered state; a frame decides after its counter
                        // operands and after a CounterZero delivery nested in it has returned
                        if *s != STATE_END && *s != STATE_SIGNAL {
                            let mut j = i + 1;
                            while matches!(log.get(j), Some(Step::CounterOperand { machine: cm, .. }) if *cm == m) {
                                j += 1;
                            }
                            frames[m].push((*s, self.t[m].limit));
                            self.resolve_frames(m, j, log, &mut frames)?;
                        } else if cz_pending[m] {
                            self.resolve_frames(m, i + 1, log, &mut frames)?;
                        }
                    } else if cz_pending[m] {
                        self.resolve_frames(m, i + 1, log, &mut frames)?;
                    }
                    cz_pending[m] = false;
                }
                Step::Limit { machine, .. } => {
                    return v("limit-resampled-out-of-place", format!("limit of machine {machine} sampled without entering a state from another"));
                }
                Step::Withdrawn { machine } => {
                    // legitimate only directly when closing that machine's completion window
                    match open {
                        Some((m, _)) if m == *machine => {
                            close_window!(i);
                            // the macro verified Withdrawn + Deliver(LimitReached); skip Withdrawn, the Deliver is
                            // processed by the loop
                        }
                        _ => return v("spurious-limit-reached", format!("action of machine {machine} withdrawn outside a completion of its own")),
                    }
                }
                Step::SignalRound => {
                    close_window!(i);
                }
                Step::CounterOperand { .. } | Step::Scheduled { .. } => {}
            }
            i += 1;
        }
        close_window!(log.len());
        if next_top != expected.len() {
            return v("unexpected-delivery", format!("{} top-level deliveries missing from the log", expected.len() - next_top));
        }
        for (mi, tr) in self.t.iter().enumerate() {
            let s = &rec.after.machines[mi];
            if s.current_state != tr.state || s.state_limit != tr.limit {
                return v(
                    "limit-changed-unexpectedly",
                    format!(
                        "after the call machine {mi} is in state {} with remaining limit {}; by the rules: state {} limit {}",
                        s.current_state, s.state_limit, tr.state, tr.limit
                    ),
                );
            }
        }
        // a returned limited action from a state whose stay is exhausted
        for a in rec.acts {
            let tr = &self.t[a.machine];
            if tr.state != STATE_END && a.kind != 0 && tr.limit == 0 {
                if let Some(def) = self.machines[a.machine].states[tr.state].action.as_ref() {
                    let (k, b, rp, _) = crate::drive::shape_of(def);
                    let same_state_before = rec.before.machines[a.machine].current_state == tr.state;
                    if has_limit(def) && (k, b, rp) == (a.kind, a.bypass, a.replace) && same_state_before && rec.events.len() == 1 {
                        // single-event call, machine stayed in the state, limit is exhausted after the call:
                        // the action can only stand if it was not this state's (checked via the log above);
                        // count for evidence
                        out.bump("actions_returned_with_limit_exhausted_after_call");
                    }
                }
            }
        }
        Ok(())
    }
}

fn limit_cfg(r: &mut Xo) -> MCfg {
    let mut c = MCfg::wild();
    c.kinds = [r.chance(1, 3), true, true, true];
    c.action16 = 14;
    c.limit16 = 13;
    c.density16 = *r.pick(&[5, 8, 11]);
    c.allow_end = r.chance(1, 3);
    c.budgets = r.chance(1, 3);
    c.max_states = 4;
    c
}

impl Prop for C07 {
    fn cases(&self, tier: Tier) -> u64 {
        match tier {
            Tier::Quick => 300_000,
            Tier::Thorough => 6_000_000,
        }
    }

    fn run_case(&mut self, cx: &CaseCx, out: &mut Out) {
        let mut r = xo(cx.seed);
        // an event names a machine through a MachineId: the id must be the number it was made from, or a
        // completion addressed to another (or to no) machine would count for this one
        for x in [0usize, 1, 255, 256, 65_535, 65_536, u32::MAX as usize, 1usize << 32, (1usize << 32) + (cx.case as usize % 4), (7usize << 32) + 1, usize::MAX - 1, usize::MAX] {
            let back = maybenot::MachineId::from_raw(x).into_raw();
            if back != x {
                out.violation(
                    "C07/machine-id-does-not-keep-its-number".to_string(),
                    format!("MachineId::from_raw({x}).into_raw() = {back}: a completion reported for machine {x} is taken for one of machine {back}"),
                    json!({"raw": x, "back": back}),
                );
                return;
            }
        }
        let n = r.range(1, 4) as usize;
        let directed = cx.case % 32 == 0;
        let machines: Vec<Machine> = if directed {
            vec![directed_machine(&mut r)]
        } else {
            (0..n)
                .map(|_| {
                    let c = limit_cfg(&mut r);
                    gen_machine(&mut r, &c)
                })
                .collect()
        };
        let pf = *r.pick(&[0.0, 0.0, 0.5]);
        let bf = *r.pick(&[0.0, 0.0, 0.5]);
        let rng_seed = rand_core::RngCore::next_u64(&mut r);
        let start = VClock(1 << 40);
        let h = HCfg {
            calls: r.range(10, 200) as usize,
            max_batch: *r.pick(&[1, 1, 2, 4, 8]),
            empty: true,
            backwards: true,
            huge_steps: false,
            unknown_ids: true,
        };
        let mut mon = Obs {
            machines: &machines,
            t: vec![],
            stays_reaching_zero: 0,
            reentries: 0,
        };
        out.evaluations += 1;
        let sc = Scenario {
            machines: &machines,
            pf,
            bf,
            start,
            rng: ScriptRng::fair(rng_seed),
            h,
            max_time: u64::MAX,
            extra16: 0,
            script: None,
        };
        match run_scenario(sc, &mut r, &mut mon, out, |_, _| None) {
            Ok(s) => {
                out.add("calls", s.calls);
                if mon.stays_reaching_zero > 0 {
                    out.nontrivial(hash_of(&(machines.iter().map(|m| m.serialize()).collect::<Vec<_>>(), s.hist_hash)));
                }
                out.sample(|| {
                    json!({"machines": crate::drive::machines_json(&machines), "history_head": s.trace.iter().take(8).collect::<Vec<_>>(),
                           "stays_that_reached_zero": mon.stays_reaching_zero, "entries_from_another_state": mon.reentries})
                });
            }
            Err((sig, msg, trace)) => out.violation(sig, msg, witness(&machines, pf, bf, rng_seed, start, &trace)),
        }
    }
}

/// The shape of the fixed defect (limit zero with a machine fraction set and no packets yet) and
/// small-limit loops.
fn directed_machine(r: &mut Xo) -> Machine {
    use enum_map::enum_map;
    use maybenot::state::{State, Trans};
    let limit = *r.pick(&[0.0, 0.0, 1.0, 2.0]);
    let mut s0 = State::new(enum_map! {
        Event::NormalRecv | Event::TunnelRecv | Event::PaddingSent => vec![Trans(0, 1.0)],
        Event::LimitReached => vec![Trans(1, 1.0)],
        _ => vec![] });
    s0.action = Some(Action::SendPadding {
        bypass: false,
        replace: false,
        timeout: constant(1.0),
        limit: Some(constant(limit)),
    });
    let mut s1 = State::new(enum_map! { Event::NormalSent | Event::TunnelSent => vec![Trans(0, 1.0)], _ => vec![] });
    s1.action = Some(Action::UpdateTimer {
        replace: true,
        duration: constant(5.0),
        limit: Some(constant(*r.pick(&[0.0, 1.0, 3.0]))),
    });
    Machine::new(0, *r.pick(&[0.0, 0.5, 1.0]), 0, 0.0, vec![s0, s1]).unwrap()
}
