//! C16 / C17 / C18 — the simulator honours blocking, executes action timers as scheduled and runs
//! the internal timers per the UpdateTimer contract. The three properties share the timeline
//! checker (simtl.rs); each worker drives a workload tuned to its property and reports only the
//! violations of its own clauses.

use enum_map::enum_map;
use maybenot::action::{Action, Timer};
use maybenot::event::Event;
use maybenot::state::{State, Trans};
use maybenot::Machine;
use serde_json::json;

use crate::gen::{constant, MCfg};
use crate::props::sim::{fmt_ev, gen_case, run_sim, SimCase, SimOutcome};
use crate::props::simtl::check_timeline;
use crate::util::{hash_of, xo, Pick, Xo};
use crate::{CaseCx, Out, Prop, Tier};

pub struct SimTl {
    pub prop: u8,
}

fn us(r: &mut Xo) -> f64 {
    *r.pick(&[0.0, 0.0, 1.0, 2.0, 5.0, 10.0, 100.0, 1000.0, 5000.0])
}

/// small hand-shaped machines that make blocks overlap, paddings bypass and timers tie
pub fn directed_machine(r: &mut Xo, prop: u8) -> Machine {
    let trig = |r: &mut Xo| *r.pick(&[Event::NormalSent, Event::NormalRecv, Event::TunnelSent, Event::TunnelRecv, Event::BlockingBegin, Event::BlockingEnd, Event::PaddingSent, Event::TimerBegin, Event::TimerEnd]);
    let action = |r: &mut Xo| -> Action {
        let k = match prop {
            16 => *r.pick(&[1, 2, 2, 2, 1]),
            17 => *r.pick(&[0, 1, 1, 2, 2]),
            _ => *r.pick(&[0, 3, 3, 3, 1]),
        };
        let limit = if r.chance(1, 2) { Some(constant(*r.pick(&[1.0, 2.0, 3.0, 5.0]))) } else { None };
        match k {
            0 => Action::Cancel { timer: *r.pick(&[Timer::Action, Timer::Internal, Timer::All]) },
            1 => Action::SendPadding { bypass: r.chance(1, 2), replace: r.chance(1, 2), timeout: constant(us(r)), limit },
            2 => Action::BlockOutgoing { bypass: r.chance(1, 2), replace: r.chance(1, 2), timeout: constant(us(r)), duration: constant(us(r)), limit },
            _ => Action::UpdateTimer { replace: r.chance(1, 2), duration: constant(us(r)), limit },
        }
    };
    let n = r.range(1, 3) as usize;
    let states: Vec<State> = (0..n)
        .map(|_| {
            let mut t = enum_map! { _ => vec![] };
            for _ in 0..r.range(1, 4) {
                t[trig(r)] = vec![Trans(r.below(n as u64) as usize, 1.0)];
            }
            if r.chance(1, 3) {
                t[Event::LimitReached] = vec![Trans(r.below(n as u64) as usize, 1.0)];
            }
            let mut s = State::new(t);
            s.action = Some(action(r));
            s
        })
        .collect();
    Machine::new(u64::MAX, 0.0, u64::MAX, 0.0, states).unwrap()
}

fn tune(prop: u8) -> impl Fn(&mut Xo, &mut MCfg) {
    move |r: &mut Xo, c: &mut MCfg| {
        c.kinds = match prop {
            16 => [r.chance(1, 4), true, true, r.chance(1, 4)],
            17 => [true, true, true, r.chance(1, 3)],
            _ => [true, r.chance(1, 3), r.chance(1, 3), true],
        };
        c.budgets = r.chance(1, 4);
    }
}

fn gen_tl_case(r: &mut Xo, prop: u8) -> SimCase {
    let max_lines = *r.pick(&[5, 20, 50]);
    let mut c = gen_case(r, max_lines, &tune(prop));
    c.pps = None;
    if r.chance(1, 2) {
        // replace the generated machines of one or both sides by directed ones
        if !c.client.is_empty() || c.server.is_empty() {
            c.client = (0..r.range(1, 3)).map(|_| directed_machine(r, prop)).collect();
        }
        if !c.server.is_empty() && r.chance(1, 2) {
            c.server = (0..r.range(1, 3)).map(|_| directed_machine(r, prop)).collect();
        }
        c.fracs = [0.0; 4];
    }
    // the internal timer ignores the integration's trigger delay (only action timers are shifted by it):
    // some C18 cases run with an integration whose only non-zero delay is a constant trigger delay
    // layered simulation: the run that is checked takes the tunnel-sent events of a first run as its traffic
    if prop == 16 && r.chance(1, 8) {
        c.layered = true;
    }
    if prop == 18 && r.chance(1, 6) {
        c.trigger_delay_us = *r.pick(&[1u64, 7, 1000, 2500]);
    }
    c
}

impl Prop for SimTl {
    fn cases(&self, tier: Tier) -> u64 {
        match tier {
            Tier::Quick => 400_000,
            Tier::Thorough => 16_000_000,
        }
    }

    fn run_case(&mut self, cx: &CaseCx, out: &mut Out) {
        let mut r = xo(cx.seed);
        let c = gen_tl_case(&mut r, self.prop);
        if c.trigger_delay_us > 0 {
            out.bump("cases_with_an_integration_trigger_delay");
        }
        if c.layered {
            out.bump("layered_cases_(output_events_of_a_first_run_reused_as_input)");
        }
        let pid = format!("C{}", self.prop);
        out.evaluations += 1;
        match run_sim(&c) {
            SimOutcome::Panic { msg, loc, sig } => out.violation(format!("{pid}/panic/{sig}"), format!("{msg} at {loc}"), c.to_json()),
            SimOutcome::TimeBeforeStart(m) => out.violation(format!("{pid}/event-before-start"), m, c.to_json()),
            SimOutcome::Ok(run) => {
                let (viols, st) = check_timeline(&c, &run);
                if out.verbose {
                    let mut ai = 0;
                    for (i, e) in run.events.iter().enumerate() {
                        eprintln!("#{i} {}", fmt_ev(e));
                        while ai < run.actions.len() && run.actions[ai].event_index == i {
                            eprintln!("      -> {:?}", run.actions[ai].action);
                            ai += 1;
                        }
                        for v in viols.iter().filter(|v| v.index == i) {
                            eprintln!("      !! {} {}", v.sig, v.msg.split(" | ").next().unwrap_or(""));
                        }
                    }
                }
                let mut interesting = false;
                for (k, v) in &st {
                    out.add(k, *v);
                }
                let key = match self.prop {
                    16 => ["blocks_started", "tunnel_sent_judged_during_blocking"],
                    17 => ["fired_actions_reported", "actions_superseded"],
                    _ => ["timers_ended_at_expiry", "timers_started"],
                };
                if key.iter().all(|k| st.get(k).copied().unwrap_or(0) > 0) {
                    interesting = true;
                }
                out.add("events_checked", run.events.len() as u64);
                // slow-world coverage: blocking/padding/timer events that happened more than 2^32 microseconds
                // (about 71.6 minutes) after the first trace event
                let far = run
                    .events
                    .iter()
                    .filter(|e| e.t >= (1u64 << 32) * 1000 && !matches!(e.event, maybenot::event::TriggerEvent::NormalSent | maybenot::event::TriggerEvent::NormalRecv | maybenot::event::TriggerEvent::TunnelSent | maybenot::event::TriggerEvent::TunnelRecv))
                    .count();
                out.add("machine_driven_events_later_than_2^32_us_after_the_start", far as u64);
                out.add("actions_logged", run.actions.len() as u64);
                let mine: Vec<_> = viols.iter().filter(|v| v.prop == self.prop).collect();
                let mut seen = std::collections::BTreeSet::new();
                for v in mine {
                    if seen.insert(v.sig.clone()) {
                        let mut w = c.to_json();
                        w["event_index"] = json!(v.index);
                        out.violation(v.sig.clone(), v.msg.clone(), w);
                    }
                }
                let others = viols.iter().filter(|v| v.prop != self.prop).count();
                out.add("violations_of_sibling_properties_seen_(reported_by_their_own_check)", others as u64);
                if interesting {
                    out.nontrivial(hash_of(&(c.trace_string(), c.delay_ns, c.seed, c.client.iter().chain(c.server.iter()).map(|m| m.serialize()).collect::<Vec<_>>())));
                }
                out.sample(|| json!({"case": c.to_json(), "returned": run.events.iter().take(20).map(fmt_ev).collect::<Vec<_>>(), "observed": st}));
            }
        }
    }
}
