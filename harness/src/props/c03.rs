//! C03 — blocking budgets. Input/output observer on the virtual clock (µs integers, so the blocked
//! share is evaluated exactly): recomputes blocked time from the BlockingBegin/BlockingEnd reports
//! and the call timestamps and checks the predicate whenever a single-event call returns
//! BlockOutgoing.

use maybenot::event::TriggerEvent;
use maybenot::{Machine, MachineId};
use serde_json::json;

use crate::gen::{gen_machine, HCfg, MCfg};
use crate::props::fwmon::{frac_below, run_scenario, witness, CallRec, Monitor, Scenario, Verdict};
use crate::util::{hash_of, xo, Pick, ScriptRng, VClock, Xo};
use crate::{CaseCx, Out, Prop, Tier};

#[derive(Default)]
pub struct C03 {}

struct Obs<'a> {
    machines: &'a [Machine],
    bf: f64,
    start: u64,
    last: u64,
    active: bool,
    started: u64,
    blocked: u64,
    decided: u64,
}

impl<'a> Monitor for Obs<'a> {
    /// boundary walk: in a quarter of the calls pick the time step that puts the blocked share
    /// exactly on one of the configured fractions (possible for dyadic fractions)
    fn suggest_step(&mut self, r: &mut Xo, now: VClock) -> Option<i64> {
        if !r.chance(1, 4) {
            return None;
        }
        let mut fr: Vec<f64> = self.machines.iter().map(|m| m.max_blocking_frac).filter(|f| *f > 0.0 && *f < 1.0).collect();
        if self.bf > 0.0 && self.bf < 1.0 {
            fr.push(self.bf);
        }
        if fr.is_empty() {
            return None;
        }
        let f = *r.pick(&fr);
        let e = now.0.saturating_sub(self.start) as f64;
        let ongoing = if self.active { now.0.saturating_sub(self.started) } else { 0 };
        let b = (self.blocked + ongoing) as f64;
        // active: (b + dt) / (e + dt) = f ; idle: b / (e + dt) = f
        let dt = if self.active { (f * e - b) / (1.0 - f) } else { b / f - e };
        if dt.is_finite() && dt >= 0.0 && dt < 1.0e12 && dt.fract() == 0.0 {
            Some(dt as i64)
        } else {
            None
        }
    }

    fn call(&mut self, rec: &CallRec<'_>, out: &mut Out) -> Verdict {
        let now = rec.now.0;
        if now < self.last {
            out.bump("calls_with_time_regression");
            if self.active {
                out.bump("calls_with_time_regression_while_blocking");
            }
            if now < self.start {
                out.bump("calls_before_start_time");
            }
        }
        self.last = now;
        for e in rec.events {
            match e {
                TriggerEvent::BlockingBegin { .. } => {
                    if !self.active {
                        self.active = true;
                        self.started = now;
                    } else {
                        out.bump("blocking_begin_while_active");
                    }
                }
                TriggerEvent::BlockingEnd => {
                    if self.active {
                        self.blocked = self.blocked.saturating_add(now.saturating_sub(self.started));
                        self.active = false;
                    } else {
                        out.bump("blocking_end_unpaired");
                    }
                }
                _ => {}
            }
        }
        let ongoing = if self.active { now.saturating_sub(self.started) } else { 0 };
        let blocked = self.blocked.saturating_add(ongoing);
        let elapsed = now.saturating_sub(self.start);
        if elapsed == 0 {
            out.bump("calls_with_zero_elapsed_time");
        }
        for a in rec.acts {
            if a.kind != 2 {
                continue;
            }
            out.bump("blocking_actions_returned");
            let m = &self.machines[a.machine];
            if a.replace && self.active {
                out.bump("blocking_actions_by_replace_while_active");
                continue;
            }
            if blocked < m.allowed_blocked_microsec {
                out.bump("blocking_actions_within_time_budget");
                continue;
            }
            self.decided += 1;
            out.bump("blocking_actions_with_budget_exhausted");
            let own_ok = !(m.max_blocking_frac > 0.0) || frac_below(blocked, elapsed, m.max_blocking_frac);
            let fw_ok = !(self.bf > 0.0) || frac_below(blocked, elapsed, self.bf);
            if m.max_blocking_frac > 0.0 || self.bf > 0.0 {
                out.bump("blocking_actions_decided_by_a_fraction");
            }
            if !(own_ok && fw_ok) {
                return Err((
                    "C03/blocking-over-budget".into(),
                    format!(
                        "BlockOutgoing (replace={}) for machine {} while blocking active={}, blocked {} µs >= budget {} µs, share {}/{} vs machine limit {} ({}) and framework limit {} ({})",
                        a.replace, a.machine, self.active, blocked, m.allowed_blocked_microsec, blocked, elapsed,
                        m.max_blocking_frac, if own_ok { "below" } else { "NOT below" },
                        self.bf, if fw_ok { "below" } else { "NOT below" }
                    ),
                ));
            }
        }
        // evidence: exact boundary states
        if elapsed > 0 {
            for m in self.machines {
                if m.max_blocking_frac > 0.0 && blocked as f64 / elapsed as f64 == m.max_blocking_frac {
                    out.bump("calls_exactly_on_a_blocking_fraction");
                    break;
                }
            }
            if self.bf > 0.0 && blocked as f64 / elapsed as f64 == self.bf {
                out.bump("calls_exactly_on_a_blocking_fraction");
            }
        }
        Ok(())
    }
}

fn blocking_cfg(r: &mut Xo) -> MCfg {
    let mut c = MCfg::wild();
    c.kinds = [r.chance(1, 4), r.chance(1, 4), true, r.chance(1, 4)];
    c.action16 = 14;
    c.limit16 = *r.pick(&[0, 2, 8]);
    c.density16 = *r.pick(&[6, 9, 12]);
    c.allow_end = r.chance(1, 4);
    c.max_states = 4;
    c
}

/// The same observer on `std::time::Instant` with nanosecond-granular timestamps. The framework
/// computes the share from two `as_secs_f64` conversions there, so the comparison is made with a
/// relative tolerance of 1e-9 (seven orders of magnitude above that rounding): only a share that
/// clearly is not below the fraction is a violation.
#[allow(clippy::too_many_arguments)]
fn run_std_instant(machines: &[Machine], pf: f64, bf: f64, rng_seed: u64, calls: usize, r: &mut Xo, out: &mut Out, trace: &mut Vec<String>) -> Result<u64, (String, String)> {
    use maybenot::{Framework, TriggerAction};
    use std::time::{Duration, Instant};
    let base = Instant::now();
    let start_ns: u64 = *r.pick(&[0u64, 1, 999, 1_000_000_007]);
    let at = |ns: u64| base + Duration::from_nanos(ns);
    let mut fw = Framework::new(machines, pf, bf, at(start_ns), ScriptRng::fair(rng_seed)).map_err(|e| ("C03/construction".to_string(), format!("{e}")))?;
    let n = machines.len();
    let mut eg = crate::drive::EvGen::default();
    let (mut now, mut active, mut started, mut blocked) = (start_ns, false, start_ns, 0u64);
    let mut decided = 0u64;
    for ci in 0..calls {
        let ev = if r.chance(7, 16) {
            match r.below(8) {
                0..=2 => TriggerEvent::BlockingBegin { machine: MachineId::from_raw(r.below(n as u64 + 1) as usize) },
                3..=5 => TriggerEvent::BlockingEnd,
                _ => TriggerEvent::TunnelRecv,
            }
        } else {
            eg.next_event(r, n, true)
        };
        let step: i64 = match r.below(12) {
            0 | 1 => 0,
            2 => 1,
            3 => 7,
            4 => 999,
            5 => 1000,
            6 => 1500,
            7 => r.range(1, 5000) as i64,
            8 => r.range(1, 50_000_000) as i64,
            9 => -(r.range(1, 3000) as i64),
            10 => 1_000_003,
            _ => r.range(1, 2_000_000) as i64,
        };
        now = if step >= 0 { now + step as u64 } else { now.saturating_sub((-step) as u64) };
        if trace.len() < 300 {
            trace.push(format!("t={}ns [{}]", now, crate::gen::fmt_events(std::slice::from_ref(&ev))));
        }
        match ev {
            TriggerEvent::BlockingBegin { .. } => {
                if !active {
                    active = true;
                    started = now;
                }
            }
            TriggerEvent::BlockingEnd => {
                if active {
                    blocked += now.saturating_sub(started);
                    active = false;
                }
            }
            _ => {}
        }
        fw.verif_set_budget(64 * 2 * (n + 1));
        let acts: Vec<(u8, bool, usize)> = fw
            .trigger_events(std::slice::from_ref(&ev), at(now))
            .map(|a| match a {
                TriggerAction::Cancel { machine, .. } => (0, false, machine.into_raw()),
                TriggerAction::SendPadding { machine, replace, .. } => (1, *replace, machine.into_raw()),
                TriggerAction::BlockOutgoing { machine, replace, .. } => (2, *replace, machine.into_raw()),
                TriggerAction::UpdateTimer { machine, replace, .. } => (3, *replace, machine.into_raw()),
            })
            .collect();
        let flat: Vec<crate::drive::Act> = acts.iter().map(|(k, rp, m)| crate::drive::Act { machine: *m, kind: *k, bypass: false, replace: *rp, timer: 0, timeout: 0, duration: 0 }).collect();
        eg.observe(&flat);
        let total = blocked + if active { now.saturating_sub(started) } else { 0 };
        let elapsed = now.saturating_sub(start_ns);
        for (k, replace, m) in &acts {
            if *k != 2 {
                continue;
            }
            let mach = &machines[*m];
            if *replace && active {
                continue;
            }
            if (total as u128) < mach.allowed_blocked_microsec as u128 * 1000 {
                continue;
            }
            decided += 1;
            out.bump("std_instant_blocking_actions_with_budget_exhausted");
            let clearly_not_below = |f: f64| f > 0.0 && if elapsed == 0 { total > 0 } else { total as f64 / elapsed as f64 >= f * (1.0 + 1.0e-9) };
            if clearly_not_below(mach.max_blocking_frac) || clearly_not_below(bf) {
                return Err((
                    "C03/blocking-over-budget".into(),
                    format!(
                        "std::time::Instant, call #{ci} at t={now} ns: BlockOutgoing (replace={replace}) for machine {m} with {total} ns blocked of {elapsed} ns elapsed (share {}), machine fraction {}, framework fraction {bf}, budget {} us",
                        total as f64 / elapsed as f64,
                        mach.max_blocking_frac,
                        mach.allowed_blocked_microsec
                    ),
                ));
            }
        }
    }
    out.add("std_instant_calls", calls as u64);
    Ok(decided)
}

impl Prop for C03 {
    fn cases(&self, tier: Tier) -> u64 {
        match tier {
            Tier::Quick => 300_000,
            Tier::Thorough => 6_000_000,
        }
    }

    fn run_case(&mut self, cx: &CaseCx, out: &mut Out) {
        let mut r = xo(cx.seed);
        let n = r.range(1, 4) as usize;
        let machines: Vec<Machine> = (0..n)
            .map(|_| {
                let cfg = blocking_cfg(&mut r);
                let mut m = gen_machine(&mut r, &cfg);
                m.allowed_blocked_microsec = *r.pick(&[0, 0, 0, 1, 1000, 1_000_000, u64::MAX]);
                m.max_blocking_frac = *r.pick(&[0.0, 0.25, 1.0 / 3.0, 0.5, 0.5, 1.0, 0.1, 0.9]);
                m
            })
            .collect();
        let bf = *r.pick(&[0.0, 0.0, 0.25, 1.0 / 3.0, 0.5, 0.5, 1.0, 0.7]);
        let pf = *r.pick(&[0.0, 0.0, 0.5]);
        let rng_seed = rand_core::RngCore::next_u64(&mut r);
        let start = VClock(*r.pick(&[1 << 30, 1 << 30, 5, 0]));
        let h = HCfg {
            calls: r.range(10, 250) as usize,
            max_batch: 1,
            empty: false,
            backwards: true,
            huge_steps: r.chance(1, 4),
            unknown_ids: true,
        };
        let mut mon = Obs {
            machines: &machines,
            bf,
            start: start.0,
            last: start.0,
            active: false,
            started: start.0,
            blocked: 0,
            decided: 0,
        };
        out.evaluations += 1;
        if cx.case % 4 == 3 {
            // a quarter of the cases: std::time::Instant with nanosecond timestamps
            let mut trace = vec![];
            let calls = r.range(10, 250) as usize;
            match run_std_instant(&machines, pf, bf, rng_seed, calls, &mut r, out, &mut trace) {
                Ok(decided) => {
                    if decided > 0 {
                        out.nontrivial(hash_of(&(machines.iter().map(|m| m.serialize()).collect::<Vec<_>>(), &trace)));
                    }
                }
                Err((sig, msg)) => out.violation(sig, msg, witness(&machines, pf, bf, rng_seed, VClock(0), &trace)),
            }
            return;
        }
        let sc = Scenario {
            machines: &machines,
            pf,
            bf,
            start,
            rng: ScriptRng::fair(rng_seed),
            h,
            // below 2^52 µs all counts convert to f64 exactly, so the framework's own division can only
            // be stricter than the exact rational comparison made here, never laxer
            max_time: 1 << 52,
            extra16: 7,
            script: None,
        };
        let res = run_scenario(sc, &mut r, &mut mon, out, |r, _| {
            Some(match r.below(8) {
                0..=2 => TriggerEvent::BlockingBegin {
                    machine: MachineId::from_raw(r.below(n as u64 + 1) as usize),
                },
                3..=5 => TriggerEvent::BlockingEnd,
                _ => TriggerEvent::TunnelRecv,
            })
        });
        match res {
            Ok(s) => {
                out.add("calls", s.calls);
                if mon.decided > 0 {
                    out.nontrivial(hash_of(&(machines.iter().map(|m| m.serialize()).collect::<Vec<_>>(), s.hist_hash)));
                }
                out.sample(|| {
                    json!({"machines": crate::drive::machines_json(&machines), "framework_max_blocking_frac": bf,
                           "start": start.0, "history_head": s.trace.iter().take(10).collect::<Vec<_>>(),
                           "blocking_actions_with_budget_exhausted": mon.decided})
                });
            }
            Err((sig, msg, trace)) => out.violation(sig, msg, witness(&machines, pf, bf, rng_seed, start, &trace)),
        }
    }
}
