//! C20 — C API.

pub fn sanitizer_main(_mode: &str, _seed: u64, _cases: u64, _shard: u64) {}
