//! C20 — the C API returns exactly the framework's actions and never writes past num_machines.
//! The `extern "C"` functions are called through the crate's rlib and compared, batch by batch and
//! field by field, with a Rust `Framework` on the same deterministic machines. The same routine is
//! the workload under Miri and AddressSanitizer (`vh c20-miri` / `vh c20-san`).

use std::ffi::CString;
use std::mem::MaybeUninit;
use std::str::FromStr;
use std::time::{Duration, Instant};

use maybenot::event::TriggerEvent;
use maybenot::{Framework, Machine, MachineId, Timer, TriggerAction};
use maybenot_ffi::{
    maybenot_num_machines, maybenot_on_events, maybenot_start, maybenot_stop, MaybenotAction, MaybenotDuration, MaybenotEvent, MaybenotEventType,
    MaybenotFramework, MaybenotTimer,
};
use rand_core::RngCore;
use serde_json::{json, Value};

use crate::alloc_track;
use crate::gen::{gen_machine, MCfg};
use crate::util::{hash_of, xo, Pick, ScriptRng, Xo};
use crate::{CaseCx, Out, Prop, Tier};

#[derive(Default)]
pub struct C20 {}

pub fn det_machine(r: &mut Xo) -> Machine {
    let mut c = MCfg::det();
    c.allow_signal = r.chance(1, 2);
    c.action16 = 13;
    c.limit16 = 6;
    c.density16 = *r.pick(&[5, 8, 12]);
    c.allow_end = r.chance(1, 4);
    c.max_states = 4;
    let mut m = gen_machine(r, &c);
    // real time must not matter: no blocking fractions, blocking budget none or unlimited
    m.max_blocking_frac = 0.0;
    m.allowed_blocked_microsec = *r.pick(&[0, u64::MAX]);
    m.allowed_padding_packets = *r.pick(&[0, 1, 5, u64::MAX]);
    m.max_padding_frac = *r.pick(&[0.0, 0.5, 1.0]);
    m
}

fn ev_type(e: &TriggerEvent) -> (MaybenotEventType, usize) {
    match e {
        TriggerEvent::NormalRecv => (MaybenotEventType::NormalRecv, 0),
        TriggerEvent::PaddingRecv => (MaybenotEventType::PaddingRecv, 0),
        TriggerEvent::TunnelRecv => (MaybenotEventType::TunnelRecv, 0),
        TriggerEvent::NormalSent => (MaybenotEventType::NormalSent, 0),
        TriggerEvent::PaddingSent { machine } => (MaybenotEventType::PaddingSent, machine.into_raw()),
        TriggerEvent::TunnelSent => (MaybenotEventType::TunnelSent, 0),
        TriggerEvent::BlockingBegin { machine } => (MaybenotEventType::BlockingBegin, machine.into_raw()),
        TriggerEvent::BlockingEnd => (MaybenotEventType::BlockingEnd, 0),
        TriggerEvent::TimerBegin { machine } => (MaybenotEventType::TimerBegin, machine.into_raw()),
        TriggerEvent::TimerEnd { machine } => (MaybenotEventType::TimerEnd, machine.into_raw()),
    }
}

/// (kind, machine, bypass, replace, timer, timeout secs, timeout nanos, duration secs, duration nanos)
pub type Flat = (u32, usize, bool, bool, u32, u64, u32, u64, u32);

fn flat_rust(a: &TriggerAction) -> Flat {
    let d = |x: &Duration| (x.as_secs(), x.subsec_nanos());
    match a {
        TriggerAction::Cancel { machine, timer } => (
            0,
            machine.into_raw(),
            false,
            false,
            match timer {
                Timer::Action => 0,
                Timer::Internal => 1,
                Timer::All => 2,
            },
            0,
            0,
            0,
            0,
        ),
        TriggerAction::SendPadding { timeout, bypass, replace, machine } => (1, machine.into_raw(), *bypass, *replace, 0, d(timeout).0, d(timeout).1, 0, 0),
        TriggerAction::BlockOutgoing { timeout, duration, bypass, replace, machine } => {
            (2, machine.into_raw(), *bypass, *replace, 0, d(timeout).0, d(timeout).1, d(duration).0, d(duration).1)
        }
        TriggerAction::UpdateTimer { duration, replace, machine } => (3, machine.into_raw(), false, *replace, 0, 0, 0, d(duration).0, d(duration).1),
    }
}

fn flat_c(a: &MaybenotAction) -> Flat {
    let d = |x: &MaybenotDuration| (x.secs, x.nanos);
    match a {
        MaybenotAction::Cancel { machine, timer } => (
            0,
            *machine,
            false,
            false,
            match timer {
                MaybenotTimer::Action => 0,
                MaybenotTimer::Internal => 1,
                MaybenotTimer::All => 2,
            },
            0,
            0,
            0,
            0,
        ),
        MaybenotAction::SendPadding { machine, timeout, replace, bypass } => (1, *machine, *bypass, *replace, 0, d(timeout).0, d(timeout).1, 0, 0),
        MaybenotAction::BlockOutgoing { machine, timeout, replace, bypass, duration } => (2, *machine, *bypass, *replace, 0, d(timeout).0, d(timeout).1, d(duration).0, d(duration).1),
        MaybenotAction::UpdateTimer { machine, duration, replace } => (3, *machine, false, *replace, 0, 0, 0, d(duration).0, d(duration).1),
    }
}

pub struct Session {
    pub machines: Vec<Machine>,
    pub strings: String,
    pub pf: f64,
    pub batches: Vec<Vec<TriggerEvent>>,
}

pub fn gen_session(r: &mut Xo, max_batches: usize) -> Session {
    let n = r.range(0, 4) as usize;
    let machines: Vec<Machine> = (0..n).map(|_| det_machine(r)).collect();
    let strings = machines.iter().map(|m| m.serialize()).collect::<Vec<_>>().join("\n");
    let nb = r.range(1, max_batches as u64) as usize;
    let mut eg = crate::drive::EvGen::default();
    // mostly small batches; one session in eight has large ones (the C glue may buffer or chunk events)
    let max_batch = if r.chance(1, 8) { *r.pick(&[31usize, 32, 33, 64, 65, 200, 1000, 1100, 2100, 5000]) } else { 6 };
    let h = crate::gen::HCfg { calls: nb, max_batch, empty: true, backwards: false, huge_steps: false, unknown_ids: true };
    // completions are not adaptive here (the script is fixed up front so that the C client can replay it)
    let batches = (0..nb)
        .map(|_| {
            let mut b = eg.next_batch(r, n, &h);
            for e in b.iter_mut() {
                if r.chance(1, 3) {
                    let m = MachineId::from_raw(if n > 0 && r.chance(5, 6) { r.below(n as u64) as usize } else { *r.pick(&[n, n + 1, usize::MAX]) });
                    *e = match r.below(3) {
                        0 => TriggerEvent::PaddingSent { machine: m },
                        1 => TriggerEvent::BlockingBegin { machine: m },
                        _ => TriggerEvent::TimerBegin { machine: m },
                    };
                }
            }
            b
        })
        .collect();
    let mut batches: Vec<Vec<TriggerEvent>> = batches;
    if max_batches >= 40 && r.chance(1, 1000) {
        // scale: one batch of more than 2^16 events - a busy head, then a long quiet tail of one and the same event,
        // so that what the head scheduled is still pending when the call returns
        let total = r.range(65_537, 70_000) as usize;
        let head = r.range(1, 40) as usize;
        let mut b: Vec<TriggerEvent> = (0..head).map(|_| eg.next_event(r, n, true)).collect();
        let quiet = r.pick(&[TriggerEvent::TunnelRecv, TriggerEvent::TunnelSent, TriggerEvent::PaddingRecv, TriggerEvent::NormalRecv, TriggerEvent::NormalSent]).clone();
        b.resize(total, quiet);
        let at = r.below(batches.len() as u64 + 1) as usize;
        batches.insert(at, b);
    }
    Session { machines, strings, pf: *r.pick(&[0.0, 0.0, 0.5, 1.0]), batches }
}

#[derive(Default)]
pub struct FfiStats {
    pub batches: u64,
    pub actions: u64,
    pub kinds: [u64; 4],
    pub flag_combos: std::collections::BTreeSet<(u32, bool, bool, u32)>,
    pub unknown_id_batches: u64,
    pub refused_calls_inside_sessions: u64,
    pub error_codes: [u64; 5],
}

const GUARD: u8 = 0xA5;

/// Runs one session through the C API and a Rust framework in lock-step.
pub fn differential(s: &Session, st: &mut FfiStats) -> Result<(), (String, String)> {
    let n = s.machines.len();
    let cstr = CString::new(s.strings.clone()).unwrap();
    let mut out: MaybeUninit<*mut MaybenotFramework> = MaybeUninit::uninit();
    let rc = unsafe { maybenot_start(cstr.as_ptr(), s.pf, 0.0, &mut out) } as u32;
    let reference = Framework::new(s.machines.clone(), s.pf, 0.0, Instant::now(), ScriptRng::fair(7));
    st.error_codes[rc.min(4) as usize] += 1;
    if (rc == 0) != reference.is_ok() {
        return Err(("C20/start-judgement-differs".into(), format!("maybenot_start returned {rc}, the Rust API {}", if reference.is_ok() { "accepts" } else { "rejects" })));
    }
    if rc != 0 {
        return Ok(());
    }
    let mut reference = reference.unwrap();
    let this = unsafe { out.assume_init() };
    let result = (|| {
        let nm = unsafe { maybenot_num_machines(this) };
        if nm != n {
            return Err(("C20/num-machines".into(), format!("maybenot_num_machines = {nm}, {n} machines were given")));
        }
        // output buffer with guard slots on both sides
        let slot = std::mem::size_of::<MaybenotAction>();
        let mut buf: Vec<MaybeUninit<MaybenotAction>> = Vec::with_capacity(n + 4);
        unsafe {
            buf.set_len(n + 4);
        }
        for (bi, b) in s.batches.iter().enumerate() {
            unsafe {
                std::ptr::write_bytes(buf.as_mut_ptr() as *mut u8, GUARD, (n + 4) * slot);
            }
            let events: Vec<MaybenotEvent> = b
                .iter()
                .map(|e| {
                    let (t, m) = ev_type(e);
                    MaybenotEvent { event_type: t, machine: m }
                })
                .collect();
            if b.iter().any(|e| ev_type(e).1 >= n && matches!(e, TriggerEvent::PaddingSent { .. } | TriggerEvent::BlockingBegin { .. } | TriggerEvent::TimerBegin { .. } | TriggerEvent::TimerEnd { .. })) {
                st.unknown_id_batches += 1;
            }
            // before some batches: a call that must be refused (one null argument, same events), after which
            // the session goes on; a refused call must leave no trace in the instance or in the caller's memory
            if (bi + n + s.batches.len()) % 3 == 0 {
                let mut sentinel: usize = 0xDEAD;
                let which = (bi + s.batches.len()) % 4;
                let rc = unsafe {
                    match which {
                        0 => maybenot_on_events(std::ptr::null_mut(), events.as_ptr(), events.len(), buf.as_mut_ptr().add(2), &mut sentinel),
                        1 => maybenot_on_events(this, std::ptr::null(), events.len(), buf.as_mut_ptr().add(2), &mut sentinel),
                        2 => maybenot_on_events(this, events.as_ptr(), events.len(), std::ptr::null_mut(), &mut sentinel),
                        _ => maybenot_on_events(this, events.as_ptr(), events.len(), buf.as_mut_ptr().add(2), std::ptr::null_mut()),
                    }
                } as u32;
                st.error_codes[rc.min(4) as usize] += 1;
                st.refused_calls_inside_sessions += 1;
                if rc != 4 {
                    return Err(("C20/error-code".into(), format!("maybenot_on_events with null argument #{which} in the middle of a session returned {rc}, expected 4")));
                }
                let bytes = unsafe { std::slice::from_raw_parts(buf.as_ptr() as *const u8, (n + 4) * slot) };
                if sentinel != 0xDEAD || bytes.iter().any(|x| *x != GUARD) {
                    return Err(("C20/refused-call-wrote-output".into(), format!("a refused maybenot_on_events call (null argument #{which}) wrote to the action buffer or the count")));
                }
            }
            let mut count: usize = usize::MAX;
            let rc = unsafe { maybenot_on_events(this, events.as_ptr(), events.len(), buf.as_mut_ptr().add(2), &mut count) } as u32;
            if rc != 0 {
                return Err(("C20/on-events-error".into(), format!("maybenot_on_events returned {rc} for valid arguments")));
            }
            reference.verif_set_budget(64 * (b.len() + 1) * (n + 1));
            let want: Vec<Flat> = reference.trigger_events(b, Instant::now()).map(flat_rust).collect();
            if count > n {
                return Err(("C20/count-exceeds-num-machines".into(), format!("{count} actions reported for {n} machines")));
            }
            // guards: two slots before, everything from slot `count` on untouched is not required, but
            // nothing beyond num_machines slots may be written
            let bytes = unsafe { std::slice::from_raw_parts(buf.as_ptr() as *const u8, (n + 4) * slot) };
            if bytes[..2 * slot].iter().any(|x| *x != GUARD) || bytes[(2 + n) * slot..].iter().any(|x| *x != GUARD) {
                return Err(("C20/write-outside-output-buffer".into(), format!("guard bytes around the {n}-slot output buffer were overwritten")));
            }
            if count != want.len() {
                return Err(("C20/count-differs".into(), format!("{count} actions written, the framework returns {}", want.len())));
            }
            for i in 0..count {
                let got = flat_c(unsafe { &*buf[2 + i].as_ptr() });
                if got != want[i] {
                    return Err((
                        "C20/action-differs".into(),
                        format!("action #{i}: C API wrote (kind, machine, bypass, replace, timer, timeout s/ns, duration s/ns) {got:?}, the framework returns {:?}", want[i]),
                    ));
                }
                st.actions += 1;
                st.kinds[got.0 as usize] += 1;
                st.flag_combos.insert((got.0, got.2, got.3, got.4));
            }
            st.batches += 1;
        }
        Ok(())
    })();
    unsafe { maybenot_stop(this) };
    result
}

/// Allocation balance of start / on_events / stop and of a failed start, measured with the counting
/// allocator: every harness-side buffer is allocated before the first measurement and dropped after
/// the last one.
pub fn leak_probe(s: &Session) -> Result<(), (String, String)> {
    let n = s.machines.len();
    let good = CString::new(s.strings.clone()).unwrap();
    let bad = CString::new(format!("{}\n02notamachine", s.strings)).unwrap();
    let batches: Vec<Vec<MaybenotEvent>> = s
        .batches
        .iter()
        .map(|b| {
            b.iter()
                .map(|e| {
                    let (t, m) = ev_type(e);
                    MaybenotEvent { event_type: t, machine: m }
                })
                .collect()
        })
        .collect();
    let mut buf: Vec<MaybeUninit<MaybenotAction>> = (0..n.max(1)).map(|_| MaybeUninit::uninit()).collect();
    let mut out: MaybeUninit<*mut MaybenotFramework> = MaybeUninit::uninit();
    let mut count = 0usize;
    // warm-up: one-time initialisation inside the OS random source etc. is not a leak of start/stop
    unsafe {
        if maybenot_start(good.as_ptr(), 0.0, 0.0, &mut out) as u32 == 0 {
            maybenot_stop(out.assume_init());
        }
    }
    let live0 = alloc_track::live();
    let rc = unsafe { maybenot_start(good.as_ptr(), s.pf, 0.0, &mut out) } as u32;
    if rc != 0 {
        return Ok(());
    }
    let this = unsafe { out.assume_init() };
    let during = alloc_track::live();
    for b in &batches {
        unsafe {
            maybenot_on_events(this, b.as_ptr(), b.len(), buf.as_mut_ptr(), &mut count);
        }
    }
    unsafe { maybenot_stop(this) };
    let live1 = alloc_track::live();
    if live1 != live0 {
        return Err((
            "C20/start-stop-leak".into(),
            format!("{live0} bytes live before maybenot_start, {during} while running, {live1} after maybenot_stop"),
        ));
    }
    let rc = unsafe { maybenot_start(bad.as_ptr(), 0.0, 0.0, &mut out) } as u32;
    let live2 = alloc_track::live();
    if rc == 0 {
        unsafe { maybenot_stop(out.assume_init()) };
    } else if live2 != live0 {
        return Err(("C20/failed-start-leak".into(), format!("{live0} bytes live before a failing maybenot_start, {live2} after it")));
    }
    // a null output pointer with otherwise valid arguments must not leave anything allocated
    let rc = unsafe { maybenot_start(good.as_ptr(), 0.0, 0.0, std::ptr::null_mut()) } as u32;
    let live_null = alloc_track::live();
    if rc == 0 || live_null != live0 {
        return Err((
            "C20/failed-start-leak".into(),
            format!("maybenot_start with a null output pointer returned {rc}; {live0} bytes live before it, {live_null} after it"),
        ));
    }
    let rc = unsafe { maybenot_start(good.as_ptr(), f64::NAN, 0.0, &mut out) } as u32;
    let live3 = alloc_track::live();
    if rc == 0 {
        unsafe { maybenot_stop(out.assume_init()) };
    } else if live3 != live0 {
        return Err(("C20/failed-start-leak".into(), format!("{live0} bytes live before a maybenot_start with an invalid fraction, {live3} after it")));
    }
    Ok(())
}

/// One fault at a time: every argument error must be answered with its code, without crashing.
pub fn fault_injection(r: &mut Xo, s: &Session, st: &mut FfiStats) -> Result<(), (String, String)> {
    let good = CString::new(s.strings.clone()).unwrap();
    let mut out: MaybeUninit<*mut MaybenotFramework> = MaybeUninit::uninit();
    let expect = |what: &str, rc: u32, want: u32| -> Result<(), (String, String)> {
        if rc != want {
            return Err(("C20/error-code".into(), format!("{what}: returned {rc}, expected {want}")));
        }
        Ok(())
    };
    match r.below(7) {
        0 => {
            let rc = unsafe { maybenot_start(good.as_ptr(), 0.0, 0.0, std::ptr::null_mut()) } as u32;
            st.error_codes[rc.min(4) as usize] += 1;
            expect("null out pointer", rc, 4)?;
        }
        1 => {
            let bad = CString::new(vec![b'0', b'2', 0xff, 0xfe, b'A']).unwrap();
            let rc = unsafe { maybenot_start(bad.as_ptr(), 0.0, 0.0, &mut out) } as u32;
            st.error_codes[rc.min(4) as usize] += 1;
            expect("non-UTF-8 machine string", rc, 1)?;
        }
        2 => {
            let mut txt = s.strings.clone();
            txt.push_str(*r.pick(&["\n02garbage", "\nxx", "\n02", "\n\n"]));
            let rust_ok = txt.lines().all(|l| Machine::from_str(l).is_ok());
            let bad = CString::new(txt).unwrap();
            let rc = unsafe { maybenot_start(bad.as_ptr(), 0.0, 0.0, &mut out) } as u32;
            st.error_codes[rc.min(4) as usize] += 1;
            if rust_ok {
                expect("machine strings the Rust API accepts", rc, 0)?;
                unsafe { maybenot_stop(out.assume_init()) };
            } else {
                expect("invalid machine string", rc, 2)?;
            }
        }
        3 => {
            let f = *r.pick(&[f64::NAN, -0.1, 1.1, f64::INFINITY, -1.0e-300, 1.0 + f64::EPSILON]);
            let (pf, bf) = if r.chance(1, 2) { (f, 0.0) } else { (0.0, f) };
            let rc = unsafe { maybenot_start(good.as_ptr(), pf, bf, &mut out) } as u32;
            st.error_codes[rc.min(4) as usize] += 1;
            expect("invalid fraction", rc, 3)?;
        }
        _ => {
            // null pointers in on_events
            let rc = unsafe { maybenot_start(good.as_ptr(), 0.0, 0.0, &mut out) } as u32;
            if rc != 0 {
                return expect("valid start", rc, 0);
            }
            let this = unsafe { out.assume_init() };
            let n = s.machines.len();
            let ev = [MaybenotEvent { event_type: MaybenotEventType::NormalSent, machine: 0 }];
            let mut buf: Vec<MaybeUninit<MaybenotAction>> = (0..n.max(1)).map(|_| MaybeUninit::uninit()).collect();
            let mut count = 0usize;
            let which = r.below(4);
            let rc = unsafe {
                match which {
                    0 => maybenot_on_events(std::ptr::null_mut(), ev.as_ptr(), 1, buf.as_mut_ptr(), &mut count),
                    1 => maybenot_on_events(this, std::ptr::null(), 1, buf.as_mut_ptr(), &mut count),
                    2 => maybenot_on_events(this, ev.as_ptr(), 1, std::ptr::null_mut(), &mut count),
                    _ => maybenot_on_events(this, ev.as_ptr(), 1, buf.as_mut_ptr(), std::ptr::null_mut()),
                }
            } as u32;
            st.error_codes[rc.min(4) as usize] += 1;
            let r2 = expect(["null instance", "null events", "null actions", "null count"][which as usize], rc, 4);
            let nm0 = unsafe { maybenot_num_machines(std::ptr::null_mut()) };
            unsafe { maybenot_stop(this) };
            r2?;
            if nm0 != 0 {
                return Err(("C20/error-code".into(), format!("maybenot_num_machines(NULL) = {nm0}")));
            }
        }
    }
    Ok(())
}

fn witness(s: &Session) -> Value {
    json!({"machines": s.strings, "max_padding_frac": s.pf,
           "batches": s.batches.iter().take(40).map(|b| crate::gen::fmt_events(b)).collect::<Vec<_>>()})
}

impl Prop for C20 {
    fn cases(&self, tier: Tier) -> u64 {
        match tier {
            Tier::Quick => 60_000,
            Tier::Thorough => 4_000_000,
        }
    }

    fn run_case(&mut self, cx: &CaseCx, out: &mut Out) {
        let mut r = xo(cx.seed);
        let s = gen_session(&mut r, 40);
        let mut st = FfiStats::default();
        out.evaluations += 1;
        let res = differential(&s, &mut st).and_then(|_| fault_injection(&mut r, &s, &mut st)).and_then(|_| leak_probe(&s));
        out.bump("start_stop_allocation_balances_checked");
        out.add("batches_compared", st.batches);
        out.add("actions_compared_field_by_field", st.actions);
        out.add("batches_with_unknown_machine_ids", st.unknown_id_batches);
        out.add("batches_of_more_than_65536_events", s.batches.iter().filter(|b| b.len() > 65_536).count() as u64);
        out.add("refused_calls_in_the_middle_of_sessions", st.refused_calls_inside_sessions);
        for (k, name) in ["actions_cancel", "actions_padding", "actions_blocking", "actions_timer"].iter().enumerate() {
            out.add(name, st.kinds[k]);
        }
        for (k, name) in ["result_ok", "result_not_utf8", "result_invalid_machine_string", "result_start_framework", "result_null_pointer"].iter().enumerate() {
            out.add(name, st.error_codes[k]);
        }
        for c in &st.flag_combos {
            out.max(&format!("seen_kind{}_bypass{}_replace{}_timer{}", c.0, c.1 as u8, c.2 as u8, c.3), 1);
        }
        match res {
            Err((sig, msg)) => out.violation(sig, msg, witness(&s)),
            Ok(()) => {
                if st.actions > 0 {
                    out.nontrivial(hash_of(&(s.strings.clone(), s.batches.iter().map(|b| crate::gen::fmt_events(b)).collect::<Vec<_>>())));
                }
                out.sample(|| witness(&s));
            }
        }
    }
}

/// Entry point for the runs under Miri / AddressSanitizer / valgrind: the same differential and
/// fault-injection workload, no panic hook, a mismatch aborts the process with a message.
pub fn sanitizer_main(mode: &str, seed: u64, cases: u64, shard: u64) {
    let mut st = FfiStats::default();
    let max_batches = if mode == "c20-miri" { 6 } else { 40 };
    for k in 0..cases {
        let mut r = xo(crate::util::case_seed(seed, mode, shard, k));
        let s = gen_session(&mut r, max_batches);
        if let Err((sig, msg)) = differential(&s, &mut st).and_then(|_| fault_injection(&mut r, &s, &mut st)) {
            println!("MISMATCH {sig} {msg}");
            println!("WITNESS {}", witness(&s));
            std::process::exit(1);
        }
    }
    println!(
        "SANITIZER-RUN-OK mode={mode} sessions={cases} batches={} actions={} codes={:?} flag_combos={}",
        st.batches,
        st.actions,
        st.error_codes,
        st.flag_combos.len()
    );
    let _ = r_unused(seed);
}

fn r_unused(x: u64) -> u64 {
    let mut r = xo(x);
    r.next_u64()
}

/// Writes the script replayed by the C client (cclient/c20.c): sessions with the actions the Rust
/// framework returns for every batch.
pub fn write_script(seed: u64, cases: u64, path: &str) {
    use std::fmt::Write as _;
    let mut txt = String::new();
    for k in 0..cases {
        let mut r = xo(crate::util::case_seed(seed, "c20-script", 0, k));
        let s = gen_session(&mut r, 30);
        // some sessions start with an invalid fraction
        let (pf, bf) = if r.chance(1, 12) { (*r.pick(&[-0.25, 1.25, f64::NAN]), 0.0) } else { (s.pf, 0.0) };
        let reference = Framework::new(s.machines.clone(), pf, bf, Instant::now(), ScriptRng::fair(7));
        let rc = match &reference {
            Ok(_) => 0,
            Err(maybenot::Error::Machine(_)) => 2,
            Err(_) => 3,
        };
        writeln!(txt, "S {} {} {} {}", s.machines.len(), hexf(pf), hexf(bf), rc).unwrap();
        for m in &s.machines {
            writeln!(txt, "M {}", m.serialize()).unwrap();
        }
        if let Ok(mut fw) = reference {
            for b in &s.batches {
                let want: Vec<Flat> = fw.trigger_events(b, Instant::now()).map(flat_rust).collect();
                writeln!(txt, "B {} {}", b.len(), want.len()).unwrap();
                for e in b {
                    let (t, m) = ev_type(e);
                    writeln!(txt, "E {} {}", t as u32, m).unwrap();
                }
                for a in want {
                    writeln!(txt, "A {} {} {} {} {} {} {} {} {}", a.0, a.1, a.2 as u8, a.3 as u8, a.4, a.5, a.6, a.7, a.8).unwrap();
                }
            }
        }
        writeln!(txt, "X").unwrap();
    }
    std::fs::write(path, txt).expect("write script");
    println!("SCRIPT-WRITTEN sessions={cases} path={path}");
}

/// C99 hexadecimal floating point literal (exact)
fn hexf(x: f64) -> String {
    if x.is_nan() {
        return "nan".into();
    }
    if x.is_infinite() {
        return if x > 0.0 { "inf".into() } else { "-inf".into() };
    }
    if x == 0.0 {
        return if x.is_sign_negative() { "-0x0p+0".into() } else { "0x0p+0".into() };
    }
    let bits = x.to_bits();
    let sign = if bits >> 63 == 1 { "-" } else { "" };
    let exp = ((bits >> 52) & 0x7ff) as i64;
    let frac = bits & ((1u64 << 52) - 1);
    if exp == 0 {
        format!("{sign}0x0.{frac:013x}p-1022")
    } else {
        format!("{sign}0x1.{frac:013x}p{:+}", exp - 1023)
    }
}
