//! One module per property: workload + monitor.

use crate::{Prop, Tier};

pub mod c01;
pub mod c02;
pub mod c03;
pub mod c04;
pub mod fwmon;
pub mod c05;
pub mod c07;
pub mod c08;
pub mod c09;
pub mod c10;
pub mod c05x;
pub mod c20;

pub fn make(name: &str, tier: Tier) -> Option<Box<dyn Prop>> {
    let _ = tier;
    Some(match name {
        "c01" => Box::new(c01::C01::default()),
        "c02" => Box::new(c02::C02::default()),
        "c03" => Box::new(c03::C03::default()),
        "c04" => Box::new(c04::C04::default()),
        "c05" => Box::new(c05::C05::default()),
        "c07" => Box::new(c07::C07::default()),
        "c08" => Box::new(c08::C08::default()),
        "c09" => Box::new(c09::C09::default()),
        "c10" => Box::new(c10::C10::default()),
        "c05x" => Box::new(c05x::C05x::default()),
        _ => return None,
    })
}
