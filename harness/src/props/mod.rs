//! One module per property: workload + monitor.

use crate::{Prop, Tier};

pub mod c01;
pub mod c02;
pub mod c03;
pub mod c04;
pub mod fwmon;
pub mod c05;
pub mod c06;
pub mod c07;
pub mod c08;
pub mod c09;
pub mod c10;
pub mod c11;
pub mod c12;
pub mod c13;
pub mod c14;
pub mod c15;
pub mod c16;
pub mod c19;
pub mod sim;
pub mod simtl;
pub mod c05x;
pub mod c20;

pub fn make(name: &str, tier: Tier) -> Option<Box<dyn Prop>> {
    let _ = tier;
    Some(match name {
        "c01" => Box::new(c01::C01::default()),
        "c02" => Box::new(c02::C02::default()),
        "c03" => Box::new(c03::C03::default()),
        "c04" => Box::new(c04::C04::default()),
        "c05" => Box::new(c05::C05::default()),
        "c06" => Box::new(c06::C06::default()),
        "c07" => Box::new(c07::C07::default()),
        "c08" => Box::new(c08::C08::default()),
        "c09" => Box::new(c09::C09::default()),
        "c10" => Box::new(c10::C10::default()),
        "c11" => Box::new(c11::C11::default()),
        "c12" => Box::new(c12::C12::default()),
        "c13" => Box::new(c13::C13::default()),
        "c14" => Box::new(c14::C14::default()),
        "c15" => Box::new(c15::C15::default()),
        "c16" => Box::new(c16::SimTl { prop: 16 }),
        "c17" => Box::new(c16::SimTl { prop: 17 }),
        "c18" => Box::new(c16::SimTl { prop: 18 }),
        "c19" => Box::new(c19::C19::default()),
        "c20" => Box::new(c20::C20::default()),
        "c05x" => Box::new(c05x::C05x::default()),
        _ => return None,
    })
}
