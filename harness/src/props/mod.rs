//! One module per property: workload + monitor.

use crate::{Prop, Tier};

pub mod c01;
pub mod c20;

pub fn make(name: &str, tier: Tier) -> Option<Box<dyn Prop>> {
    let _ = tier;
    Some(match name {
        "c01" => Box::new(c01::C01::default()),
        _ => return None,
    })
}
