//! C02 — padding budgets. Input/output observer: recounts NormalSent / PaddingSent from the fed
//! events and evaluates the budget predicate exactly (rational arithmetic) whenever a single-event
//! call returns SendPadding.

use maybenot::event::TriggerEvent;
use maybenot::{Machine, MachineId};
use serde_json::json;

use crate::gen::{gen_machine, HCfg, MCfg};
use crate::props::fwmon::{frac_below, run_scenario, witness, CallRec, Monitor, Scenario, Verdict};
use crate::util::{hash_of, xo, Pick, ScriptRng, VClock, Xo};
use crate::{CaseCx, Out, Prop, Tier};

#[derive(Default)]
pub struct C02 {}

struct Obs<'a> {
    machines: &'a [Machine],
    pf: f64,
    normal: u64,
    pad_all: u64,
    pad: Vec<u64>,
    decided_by_fraction: u64,
    boundary_calls: u64,
}

impl<'a> Monitor for Obs<'a> {
    fn call(&mut self, rec: &CallRec<'_>, out: &mut Out) -> Verdict {
        let n = self.machines.len();
        for e in rec.events {
            match e {
                TriggerEvent::NormalSent => self.normal += 1,
                TriggerEvent::PaddingSent { machine } => {
                    self.pad_all += 1;
                    if machine.into_raw() < n {
                        self.pad[machine.into_raw()] += 1;
                    }
                }
                _ => {}
            }
        }
        // history states that sit exactly on a fraction limit (evidence only)
        let mut on_boundary = false;
        for (mi, m) in self.machines.iter().enumerate() {
            let tot = self.pad[mi] + self.normal;
            if m.max_padding_frac > 0.0 && tot > 0 && self.pad[mi] >= m.allowed_padding_packets {
                let below = frac_below(self.pad[mi], tot, m.max_padding_frac);
                let below_next = frac_below(self.pad[mi] + 1, tot + 1, m.max_padding_frac);
                if !below && (self.pad[mi] as f64 / tot as f64) == m.max_padding_frac {
                    on_boundary = true;
                }
                let _ = below_next;
            }
        }
        let gtot = self.pad_all + self.normal;
        if self.pf > 0.0 && gtot > 0 && (self.pad_all as f64 / gtot as f64) == self.pf {
            on_boundary = true;
        }
        if on_boundary {
            self.boundary_calls += 1;
            out.bump("calls_exactly_on_a_fraction_limit");
        }
        for a in rec.acts {
            if a.kind != 1 {
                continue;
            }
            out.bump("padding_actions_returned");
            let m = &self.machines[a.machine];
            let p = self.pad[a.machine];
            if p < m.allowed_padding_packets {
                out.bump("padding_actions_within_packet_budget");
                continue;
            }
            let own_ok = !(m.max_padding_frac > 0.0) || frac_below(p, p + self.normal, m.max_padding_frac);
            let fw_ok = !(self.pf > 0.0) || frac_below(self.pad_all, gtot, self.pf);
            self.decided_by_fraction += 1;
            out.bump("padding_actions_with_budget_exhausted");
            if m.max_padding_frac > 0.0 {
                out.bump("padding_actions_decided_by_machine_fraction");
            }
            if self.pf > 0.0 {
                out.bump("padding_actions_decided_by_framework_fraction");
            }
            if !(own_ok && fw_ok) {
                return Err((
                    "C02/padding-over-budget".into(),
                    format!(
                        "SendPadding for machine {} although it has {} paddings >= budget {} and (own fraction {}/{} vs limit {}: {}; framework fraction {}/{} vs limit {}: {})",
                        a.machine, p, m.allowed_padding_packets, p, p + self.normal, m.max_padding_frac,
                        if own_ok { "below" } else { "NOT below" },
                        self.pad_all, gtot, self.pf, if fw_ok { "below" } else { "NOT below" }
                    ),
                ));
            }
        }
        Ok(())
    }
}

pub fn padding_cfg(r: &mut Xo) -> MCfg {
    let mut c = MCfg::wild();
    c.kinds = [r.chance(1, 4), true, r.chance(1, 4), r.chance(1, 4)];
    c.action16 = 14;
    c.limit16 = *r.pick(&[0, 2, 8]);
    c.density16 = *r.pick(&[6, 9, 12]);
    c.allow_end = r.chance(1, 4);
    c.max_states = 4;
    c
}

fn tune_budget(r: &mut Xo, m: &mut Machine) {
    m.allowed_padding_packets = *r.pick(&[0, 0, 0, 1, 2, 5, 1000]);
    m.max_padding_frac = *r.pick(&[0.0, 0.25, 1.0 / 3.0, 0.5, 0.5, 1.0, 0.1, 0.9]);
    if r.chance(1, 8) {
        m.max_padding_frac = r.unit_f64();
    }
    // a limit is set as soon as it is positive, however small
    if r.chance(1, 12) {
        m.max_padding_frac = *r.pick(&[f64::MIN_POSITIVE, 5.0e-324, 1.0e-300, 1.0e-17, f64::EPSILON, f64::EPSILON / 2.0, 1.0e-9]);
    }
}

impl Prop for C02 {
    fn cases(&self, tier: Tier) -> u64 {
        match tier {
            Tier::Quick => 300_000,
            Tier::Thorough => 6_000_000,
        }
    }

    fn run_case(&mut self, cx: &CaseCx, out: &mut Out) {
        let mut r = xo(cx.seed);
        let directed = cx.case % 64 == 0;
        let (machines, pf): (Vec<Machine>, f64) = if directed {
            directed_case(&mut r)
        } else {
            let n = r.range(1, 4) as usize;
            let ms = (0..n)
                .map(|_| {
                    let cfg = padding_cfg(&mut r);
                    let mut m = gen_machine(&mut r, &cfg);
                    tune_budget(&mut r, &mut m);
                    m
                })
                .collect();
            let pf = if r.chance(1, 12) {
                *r.pick(&[f64::MIN_POSITIVE, 5.0e-324, 1.0e-300, 1.0e-17, f64::EPSILON, f64::EPSILON / 2.0, 1.0e-9])
            } else {
                *r.pick(&[0.0, 0.0, 0.25, 1.0 / 3.0, 0.5, 0.5, 1.0, 0.7])
            };
            (ms, pf)
        };
        // scale (one case per 65536): one padding machine brought to more than 2^24 reported packets with its own
        // fraction (or the framework's) right at the limit, in 16 calls of 2^20 events, then an obedient walk along
        // the limit one event at a time
        let long = cx.case % 65536 == 1;
        let (num, den) = *r.pick(&[(3u64, 10u64), (1, 5), (3, 5), (1, 3), (2, 7), (3, 10)]);
        let own = r.chance(1, 2);
        let (machines, pf) = if long {
            out.bump("long_histories_(more_than_2^24_packets_reported)");
            let f = num as f64 / den as f64;
            (vec![walker(if own { f } else { 0.0 })], if own { 0.0 } else { f })
        } else {
            (machines, pf)
        };
        let script = move |i: usize, last: &[crate::drive::Act]| -> Vec<TriggerEvent> {
            if i < 16 {
                // num padding packets in every den packets
                (0..1u64 << 20)
                    .map(|k| if k % den < num { TriggerEvent::PaddingSent { machine: MachineId::from_raw(0) } } else { TriggerEvent::NormalSent })
                    .collect()
            } else if i == 16 {
                vec![TriggerEvent::TunnelRecv]
            } else if last.iter().any(|a| a.kind == 1) {
                vec![TriggerEvent::PaddingSent { machine: MachineId::from_raw(0) }]
            } else {
                vec![TriggerEvent::NormalSent]
            }
        };
        let bf = *r.pick(&[0.0, 0.0, 0.5]);
        let rng_seed = rand_core::RngCore::next_u64(&mut r);
        let start = VClock(1 << 30);
        let h = HCfg {
            calls: if long { 17 + 4000 } else { r.range(10, 250) as usize },
            max_batch: 1,
            empty: false,
            backwards: true,
            huge_steps: false,
            unknown_ids: true,
        };
        let n = machines.len();
        let mut mon = Obs {
            machines: &machines,
            pf,
            normal: 0,
            pad_all: 0,
            pad: vec![0; n],
            decided_by_fraction: 0,
            boundary_calls: 0,
        };
        out.evaluations += 1;
        let sc = Scenario {
            machines: &machines,
            pf,
            bf,
            start,
            rng: ScriptRng::fair(rng_seed),
            h,
            max_time: 1 << 50,
            extra16: if long { 0 } else { 8 },
            script: if long { Some(&script) } else { None },
        };
        // boundary walks: mostly NormalSent and PaddingSent so that fractions are actually reached
        let res = run_scenario(sc, &mut r, &mut mon, out, |r, _| {
            Some(match r.below(8) {
                0..=3 => TriggerEvent::NormalSent,
                4..=6 => TriggerEvent::PaddingSent {
                    machine: MachineId::from_raw(r.below(n as u64 + 1) as usize),
                },
                _ => TriggerEvent::TunnelRecv,
            })
        });
        match res {
            Ok(s) => {
                out.add("calls", s.calls);
                if mon.decided_by_fraction > 0 {
                    out.nontrivial(hash_of(&(machines.iter().map(|m| m.serialize()).collect::<Vec<_>>(), s.hist_hash)));
                }
                if directed {
                    out.bump("directed_cases");
                }
                out.sample(|| {
                    json!({"machines": crate::drive::machines_json(&machines), "framework_max_padding_frac": pf,
                           "history_head": s.trace.iter().take(10).collect::<Vec<_>>(),
                           "padding_actions_decided_by_fraction": mon.decided_by_fraction})
                });
            }
            Err((sig, msg, trace)) => out.violation(sig, msg, witness(&machines, pf, bf, rng_seed, start, &trace)),
        }
    }
}

/// Once woken up, asks for padding again after every packet it sends or sees sent; budget 100.
fn walker(own_frac: f64) -> Machine {
    use enum_map::enum_map;
    use maybenot::action::Action;
    use maybenot::event::Event;
    use maybenot::state::{State, Trans};
    // state 0 waits (the bulk of the history is reported while the machine is silent: a call with many events is
    // judged by C05, not here); TunnelRecv wakes it up
    let s0 = State::new(enum_map! { Event::TunnelRecv => vec![Trans(1, 1.0)], _ => vec![] });
    let mut s = State::new(enum_map! { Event::PaddingSent | Event::NormalSent => vec![Trans(1, 1.0)], _ => vec![] });
    s.action = Some(Action::SendPadding { bypass: false, replace: false, timeout: crate::gen::constant(1.0), limit: None });
    Machine::new(100, own_frac, 0, 0.0, vec![s0, s]).unwrap()
}

/// Directed shapes: a machine with no packets of its own next to one that pads (the shape of the
/// fixed defect), exact boundaries.
fn directed_case(r: &mut Xo) -> (Vec<Machine>, f64) {
    use enum_map::enum_map;
    use maybenot::action::Action;
    use maybenot::event::Event;
    use maybenot::state::{State, Trans};
    let pad_on = |ev: Event, limit: Option<f64>| {
        let mut s = State::new(enum_map! { e if e == ev => vec![Trans(0, 1.0)], _ => vec![] });
        s.action = Some(Action::SendPadding {
            bypass: false,
            replace: false,
            timeout: crate::gen::constant(1.0),
            limit: limit.map(crate::gen::constant),
        });
        s
    };
    let ev = *r.pick(&[Event::TunnelRecv, Event::NormalRecv, Event::PaddingRecv, Event::TunnelSent, Event::BlockingEnd]);
    let mf = *r.pick(&[0.5, 0.25, 1.0]);
    let m0 = Machine::new(0, mf, 0, 0.0, vec![pad_on(ev, None)]).unwrap();
    let ev1 = *r.pick(&[Event::PaddingSent, Event::NormalSent, Event::TunnelRecv]);
    let m1 = Machine::new(*r.pick(&[0, 3, 1000]), *r.pick(&[0.0, 0.5]), 0, 0.0, vec![pad_on(ev1, None)]).unwrap();
    let pf = *r.pick(&[0.5, 0.25, 1.0]);
    if r.chance(1, 2) {
        (vec![m0, m1], pf)
    } else {
        (vec![m1, m0], pf)
    }
}
