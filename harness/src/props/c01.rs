//! C01 — the framework is total and its work per call is linearly bounded.

use std::panic::{catch_unwind, AssertUnwindSafe};

use maybenot::event::{Event, TriggerEvent};
use maybenot::time::Instant as MInstant;
use maybenot::verif::{Step, BUDGET_PANIC};
use maybenot::{Framework, Machine};
use serde_json::json;

use crate::drive::{machines_json, EvGen};
use crate::gen::{fmt_events, gen_frac, gen_machines, gen_step, HCfg, MCfg};
use crate::util::{hash_of, xo, Pick, ScriptRng, VClock, Xo};
use crate::{panic_sig, take_panic, CaseCx, Out, Prop, Tier};

#[derive(Default)]
pub struct C01 {
    long_done: bool,
}

/// Very many calls on one instance (no machines / one small machine, mostly empty batches, standing
/// clock): anything that counts calls or events in a narrow integer shows after 2^8, 2^16 or 2^32 of them.
fn long_run(calls: u64, with_machine: bool, out: &mut Out) -> Result<(), String> {
    use enum_map::enum_map;
    use maybenot::counter::{Counter, Operation};
    use maybenot::state::{State, Trans};
    let machines: Vec<Machine> = if with_machine {
        // counter A goes 1, 0, 1, 0 ... on NormalSent, with a CounterZero transition
        let mut s0 = State::new(enum_map! { Event::NormalSent => vec![Trans(1, 1.0)], _ => vec![] });
        s0.counter = (Some(Counter::new(Operation::Decrement)), None);
        let mut s1 = State::new(enum_map! { Event::NormalSent => vec![Trans(0, 1.0)], Event::CounterZero => vec![Trans(1, 1.0)], _ => vec![] });
        s1.counter = (Some(Counter::new(Operation::Increment)), None);
        vec![Machine::new(0, 0.0, 0, 0.0, vec![s0, s1]).map_err(|e| format!("{e}"))?]
    } else {
        vec![]
    };
    let mut fw = Framework::new(&machines[..], 0.0, 0.0, VClock(1), ScriptRng::fair(1)).map_err(|e| format!("{e}"))?;
    let ev = [TriggerEvent::NormalSent];
    let mut acts = 0u64;
    for i in 0..calls {
        fw.verif_set_budget(64);
        let batch: &[TriggerEvent] = if with_machine || i % 1024 == 0 { &ev } else { &[] };
        acts += fw.trigger_events(batch, VClock(1)).count() as u64;
        if i % (1 << 24) == 0 {
            crate::hb_tag(&format!("long run, call {i}"));
        }
    }
    crate::hb_tag("");
    out.add("calls_on_one_long_lived_instance", calls);
    out.add("actions_returned", acts);
    Ok(())
}

/// deliveries per call are bounded by K * (events + 1) * (machines + 1)
const K: u64 = 4;

const EXTREME: [u64; 6] = [0, u64::MAX, 0xAAAA_AAAA_AAAA_AAAA, 1 << 63, (1 << 63) - 1, 1];

fn kind_of(a: &maybenot::TriggerAction<impl MInstant>) -> (u8, usize) {
    match a {
        maybenot::TriggerAction::Cancel { machine, .. } => (0, machine.into_raw()),
        maybenot::TriggerAction::SendPadding { machine, .. } => (1, machine.into_raw()),
        maybenot::TriggerAction::BlockOutgoing { machine, .. } => (2, machine.into_raw()),
        maybenot::TriggerAction::UpdateTimer { machine, .. } => (3, machine.into_raw()),
    }
}

struct CaseStats {
    calls: u64,
    actions: u64,
    internal: u64,
    hist_hash: u64,
}

#[allow(clippy::too_many_arguments)]
fn run_history<T: MInstant>(
    machines: &[Machine],
    pf: f64,
    bf: f64,
    rng: ScriptRng,
    clock: &dyn Fn(u64) -> T,
    r: &mut Xo,
    h: &HCfg,
    big_batches: bool,
    out: &mut Out,
    trace: &mut Vec<String>,
) -> Result<CaseStats, String> {
    let mut now: u64 = 1 << 41; // µs offset; leaves room for backwards steps
    let mut fw = match Framework::new(machines, pf, bf, clock(now), rng) {
        Ok(f) => f,
        Err(e) => return Err(format!("new-failed: {e}")),
    };
    let n = machines.len();
    let mut eg = EvGen::default();
    let mut st = CaseStats {
        calls: 0,
        actions: 0,
        internal: 0,
        hist_hash: 0,
    };
    for _ in 0..h.calls {
        let events: Vec<TriggerEvent> = if big_batches && r.chance(1, 40) {
            let len = r.range(1000, 10_000) as usize;
            (0..len).map(|_| eg.next_event(r, n, h.unknown_ids)).collect()
        } else {
            eg.next_batch(r, n, h)
        };
        let step = gen_step(r, h);
        if step < 0 {
            out.bump("calls_backwards_time");
            now = now.saturating_sub((-step) as u64);
        } else {
            if step == 0 {
                out.bump("calls_zero_step");
            }
            // keep offsets below 2^45 µs so that std::time arithmetic in the harness is safe
            now = (now + step as u64).min(1 << 45);
        }
        // a clone is a framework like any other: now and then the history continues on a clone
        if r.chance(1, 24) {
            fw = fw.clone();
            out.bump("histories_continued_on_a_clone");
        }
        let e = events.len() as u64;
        let m = n as u64;
        fw.verif_set_budget((64 * (e + 1) * (m + 1)) as usize);
        if events.iter().any(|ev| match ev {
            TriggerEvent::PaddingSent { machine }
            | TriggerEvent::BlockingBegin { machine }
            | TriggerEvent::TimerBegin { machine }
            | TriggerEvent::TimerEnd { machine } => machine.into_raw() >= n,
            _ => false,
        }) {
            out.bump("calls_with_unknown_id");
        }
        if trace.len() < 400 {
            trace.push(format!("t={} [{}]", now, fmt_events(&events)));
        }
        st.hist_hash = hash_of(&(st.hist_hash, now, &events));
        let acts: Vec<(u8, usize)> = fw.trigger_events(&events, clock(now)).map(kind_of).collect();
        st.calls += 1;
        st.actions += acts.len() as u64;
        let flat: Vec<crate::drive::Act> = acts
            .iter()
            .map(|(k, mi)| crate::drive::Act {
                machine: *mi,
                kind: *k,
                bypass: false,
                replace: false,
                timer: 0,
                timeout: 0,
                duration: 0,
            })
            .collect();
        eg.observe(&flat);
        // the measured work of the call
        let mut deliveries = 0u64;
        for s in fw.verif_log() {
            if let Step::Deliver {
                event,
                counter_a,
                counter_b,
                state_limit,
                ..
            } = s
            {
                deliveries += 1;
                match event {
                    Event::LimitReached => {
                        st.internal += 1;
                        out.bump("deliver_limit_reached")
                    }
                    Event::CounterZero => {
                        st.internal += 1;
                        out.bump("deliver_counter_zero")
                    }
                    Event::Signal => {
                        st.internal += 1;
                        out.bump("deliver_signal")
                    }
                    _ => {}
                }
                if *counter_a == u64::MAX || *counter_b == u64::MAX {
                    out.bump("deliveries_with_saturated_counter");
                }
                if *state_limit == 0 {
                    out.bump("deliveries_with_limit_zero");
                }
            }
        }
        out.add("deliveries", deliveries);
        let bound = K * (e + 1) * (m + 1);
        out.max("deliveries_x1000_per_(E+1)(M+1)", deliveries * 1000 / ((e + 1) * (m + 1)));
        if e >= 1000 {
            out.bump("calls_with_1000+_events");
        }
        if deliveries > bound {
            return Err(format!(
                "work-bound: {deliveries} deliveries in one call with {e} events and {m} machines (bound {bound})"
            ));
        }
    }
    Ok(st)
}

impl Prop for C01 {
    fn cases(&self, tier: Tier) -> u64 {
        match tier {
            Tier::Quick => 200_000,
            Tier::Thorough => 8_000_000,
        }
    }

    fn run_case(&mut self, cx: &CaseCx, out: &mut Out) {
        if !self.long_done && (cx.shard == 0 || cx.shard == 1 % cx.nshards) {
            self.long_done = true;
            // shard 0: one small machine, 2^16 + 2^10 calls (thorough: 2^24); shard 1: no machine,
            // 2^32 + 2^10 calls (about 15 s)
            let (calls, with_machine) = match (cx.shard == 0, cx.tier) {
                (true, Tier::Quick) => ((1 << 16) + 1024, true),
                (true, Tier::Thorough) => ((1 << 24) + 1024, true),
                (false, _) => ((1u64 << 32) + 1024, false),
            };
            let res = catch_unwind(AssertUnwindSafe(|| long_run(calls, with_machine, out)));
            match res {
                Ok(Ok(())) => out.bump("long_lived_instances"),
                Ok(Err(m)) => out.violation("long-run".to_string(), m, json!({"calls": calls, "with_machine": with_machine})),
                Err(_) => {
                    let (msg, loc) = take_panic();
                    out.violation(
                        format!("panic/{}", panic_sig(&msg, &loc)),
                        format!("{msg} at {loc} (one instance, {calls} calls planned, standing clock, batches of 0 or 1 NormalSent)"),
                        json!({"calls": calls, "with_machine": with_machine}),
                    );
                }
            }
        }
        let mut r = xo(cx.seed);
        let scripted = r.chance(1, 2);
        let mut cfg = MCfg::wild();
        // Binomial under scripted extreme words is the subject of C13 (known finding there).
        cfg.allow_binomial = !scripted;
        let mut machines = if r.chance(1, 40) {
            // many machines in one framework: per-machine state must not be packed into fixed-width words
            let mut small = cfg.clone();
            small.max_states = 3;
            let n = *r.pick(&[31usize, 32, 33, 34, 63, 64, 65, 70, 129, 257]);
            out.bump("cases_with_31_to_257_machines");
            (0..n).map(|_| crate::gen::gen_machine(&mut r, &small)).collect()
        } else {
            gen_machines(&mut r, &cfg, 0, 5)
        };
        // start / max of a distribution are not constrained by validation
        if r.chance(1, 4) {
            let mut twisted = 0;
            for m in machines.iter_mut() {
                let (nm, k) = crate::gen::hostile_bounds(&mut r, m);
                *m = nm;
                twisted += k;
            }
            if twisted > 0 {
                out.bump("cases_with_unconstrained_dist_bounds_(start>max,_NaN,_inf,_negative)");
            }
        }
        // machines that are not well-formed, offered to validation: what it accepts must run
        if !machines.is_empty() && r.chance(1, 6) {
            let mi = r.below(machines.len() as u64) as usize;
            match crate::gen::hostile_structure(&mut r, &machines[mi]) {
                Some(m) => {
                    machines[mi] = m;
                    out.bump("malformed_machines_accepted_by_validation_and_run");
                }
                None => out.bump("malformed_machines_rejected_by_validation"),
            }
        }
        let pf = gen_frac(&mut r);
        let bf = gen_frac(&mut r);
        let prefix: Vec<u64> = if scripted {
            (0..r.range(1, 8)).map(|_| *r.pick(&EXTREME)).collect()
        } else {
            vec![]
        };
        let tail = r.next_u64_();
        let rng = ScriptRng::new(prefix.clone(), tail);
        let real_clock = r.chance(1, 4);
        let h = HCfg {
            calls: r.range(1, 120) as usize,
            max_batch: *r.pick(&[1, 2, 8, 64]),
            empty: true,
            backwards: true,
            huge_steps: true,
            unknown_ids: true,
        };
        let big = r.chance(1, 8);
        let mut trace = vec![];
        let base = std::time::Instant::now();
        let res = catch_unwind(AssertUnwindSafe(|| {
            if real_clock {
                run_history(
                    &machines,
                    pf,
                    bf,
                    rng,
                    &|off| base + std::time::Duration::from_micros(off),
                    &mut r,
                    &h,
                    big,
                    out,
                    &mut trace,
                )
            } else {
                run_history(&machines, pf, bf, rng, &VClock, &mut r, &h, big, out, &mut trace)
            }
        }));
        out.evaluations += 1;
        out.bump(if real_clock { "cases_std_instant" } else { "cases_virtual_clock" });
        if scripted {
            out.bump("cases_scripted_rng_prefix");
        }
        let witness = |trace: &Vec<String>| {
            json!({
                "machines": machines_json(&machines),
                "max_padding_frac": pf, "max_blocking_frac": bf,
                "rng_prefix": prefix, "rng_tail_seed": tail,
                "clock": if real_clock {"std::time::Instant"} else {"virtual"},
                "history_tail": trace.iter().rev().take(12).rev().collect::<Vec<_>>(),
            })
        };
        match res {
            Ok(Ok(st)) => {
                out.add("calls", st.calls);
                out.add("actions_returned", st.actions);
                if st.actions > 0 && st.internal > 0 {
                    let h = hash_of(&(machines.iter().map(|m| m.serialize()).collect::<Vec<_>>(), st.hist_hash));
                    out.nontrivial(h);
                }
                out.sample(|| {
                    json!({"machines": machines.len(), "calls": st.calls, "actions": st.actions,
                           "internal_events": st.internal, "first_machine": machines.first().map(|m| m.serialize()),
                           "history_head": trace.iter().take(6).collect::<Vec<_>>()})
                });
            }
            Ok(Err(msg)) => {
                let sig = msg.split(':').next().unwrap_or("err").to_string();
                out.violation(sig, msg, witness(&trace));
            }
            Err(_) => {
                let (msg, loc) = take_panic();
                if crate::is_harness_loc(&loc) {
                    std::panic::resume_unwind(Box::new(format!("{msg} at {loc}")));
                }
                let sig = if msg == BUDGET_PANIC {
                    "step-budget-exceeded".to_string()
                } else {
                    format!("panic/{}", panic_sig(&msg, &loc))
                };
                out.violation(sig, format!("{msg} at {loc}"), witness(&trace));
            }
        }
    }
}

trait NextU64 {
    fn next_u64_(&mut self) -> u64;
}
impl NextU64 for Xo {
    fn next_u64_(&mut self) -> u64 {
        use rand_core::RngCore;
        self.next_u64()
    }
}
