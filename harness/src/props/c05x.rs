//! C05, bounded-exhaustive workload: for families of small dyadic machines, a depth-first search
//! over call histories (relevant event alphabet × ids {0,1,unknown} × time steps {0,1,10^6,-5})
//! in which *every* outcome of every probabilistic draw is explored by backtracking over a choice
//! script; the reference semantics checks every call.

use std::collections::HashSet;

use maybenot::action::Action;
use maybenot::event::{Event, TriggerEvent};
use maybenot::{Framework, Machine, MachineId};
use serde_json::json;

use crate::drive::{apply_step, machines_json, trigger, FwR};
use crate::gen::{fmt_events, gen_machine, MCfg, ALL_EVENTS};
use crate::props::c05::{add_stats, classify};
use crate::refsem::{only_transition_draws, DrawOracle, RefFw};
use crate::util::{xo, Pick, SharedChoice, VClock, Xo};
use crate::{CaseCx, Out, Prop, Tier};

#[derive(Default)]
pub struct C05x {
    states: HashSet<u64>,
    closed: u64,
    unclosed: u64,
}

/// one representative per dyadic outcome class: r = 0, 1/4, 1/2, 3/4 (the left end points, i.e.
/// exactly the values at which `r < cumulative` flips)
const CHOICES: [u32; 4] = [0, 1 << 30, 2 << 30, 3 << 30];

#[derive(Clone)]
struct Node<'a> {
    fw: FwR<'a, SharedChoice>,
    reference: RefFw<'a>,
    now: VClock,
}

struct Search<'a, 'b> {
    handle: SharedChoice,
    alphabet: Vec<Vec<TriggerEvent>>,
    steps: Vec<i64>,
    nodes: u64,
    budget: u64,
    path: Vec<String>,
    states: &'b mut HashSet<u64>,
    transitions: u64,
    draws_max: usize,
    only_transition_draws: bool,
    _m: std::marker::PhantomData<&'a ()>,
}

impl<'a, 'b> Search<'a, 'b> {
    /// Err(Some(..)) = violation, Err(None) = node budget exhausted
    fn explore(&mut self, node: &Node<'a>, depth_left: usize) -> Result<(), Option<(String, String)>> {
        for ai in 0..self.alphabet.len() {
            for si in 0..self.steps.len() {
                let events = self.alphabet[ai].clone();
                let step = self.steps[si];
                let now = apply_step(node.now, step);
                let mut scripts: Vec<Vec<u32>> = vec![vec![]];
                while let Some(script) = scripts.pop() {
                    if self.nodes >= self.budget {
                        return Err(None);
                    }
                    self.nodes += 1;
                    let mut n2 = node.clone();
                    self.handle.set(&script);
                    let acts = trigger(&mut n2.fw, &events, now);
                    if self.handle.overrun() > 0 {
                        // the call needed more draws than scripted: branch on the next draw
                        for c in CHOICES.iter().rev() {
                            let mut s2 = script.clone();
                            s2.push(*c);
                            scripts.push(s2);
                        }
                        continue;
                    }
                    self.draws_max = self.draws_max.max(script.len());
                    n2.now = now;
                    let snap = n2.fw.verif_snapshot();
                    self.path.push(format!("t{:+} [{}] draws={:?}", step, fmt_events(&events), script.iter().map(|c| c >> 30).collect::<Vec<_>>()));
                    if self.only_transition_draws {
                        n2.reference.oracle = Some(DrawOracle::Words { words: script.clone(), pos: 0 });
                    }
                    if let Err(m) = n2.reference.call(&events, now, n2.fw.verif_log(), &acts, &snap) {
                        return Err(Some((format!("C05/conformance/{}", classify(&m)), m)));
                    }
                    if let Some(DrawOracle::Words { pos, .. }) = &n2.reference.oracle {
                        if *pos != script.len() {
                            return Err(Some((
                                "C05/conformance/draw-count".into(),
                                format!("the call consumed {} random draws, the semantics prescribes {pos} (one per delivery to a state that declares transitions for the event)", script.len()),
                            )));
                        }
                    }
                    self.transitions += 1;
                    if self.states.len() < 3_000_000 {
                        self.states.insert(n2.reference.state_key());
                    }
                    if depth_left > 1 {
                        self.explore(&n2, depth_left - 1)?;
                    }
                    self.path.pop();
                }
            }
        }
        Ok(())
    }
}

fn relevant_alphabet(machines: &[Machine]) -> (Vec<TriggerEvent>, bool) {
    let n = machines.len();
    let mut used = [false; 13];
    let mut accounting_pad = false;
    let mut accounting_block = false;
    let mut has_kind = [false; 4];
    for m in machines {
        if m.max_padding_frac > 0.0 || m.allowed_padding_packets > 0 {
            accounting_pad = true;
        }
        for s in &m.states {
            let t = s.get_transitions();
            for (i, e) in ALL_EVENTS.iter().enumerate() {
                if !t[*e].is_empty() {
                    used[i] = true;
                }
            }
            match s.action {
                Some(Action::SendPadding { .. }) => has_kind[1] = true,
                Some(Action::BlockOutgoing { .. }) => {
                    has_kind[2] = true;
                    if m.max_blocking_frac > 0.0 || m.allowed_blocked_microsec > 0 {
                        accounting_block = true;
                    }
                }
                Some(Action::UpdateTimer { .. }) => has_kind[3] = true,
                _ => {}
            }
        }
    }
    let ids = [0usize, 1, n.max(2)];
    let mut al = vec![];
    let u = |e: Event| used[ALL_EVENTS.iter().position(|x| *x == e).unwrap()];
    if u(Event::NormalRecv) {
        al.push(TriggerEvent::NormalRecv);
    }
    if u(Event::PaddingRecv) {
        al.push(TriggerEvent::PaddingRecv);
    }
    if u(Event::TunnelRecv) {
        al.push(TriggerEvent::TunnelRecv);
    }
    if u(Event::TunnelSent) {
        al.push(TriggerEvent::TunnelSent);
    }
    if u(Event::NormalSent) || (accounting_pad && has_kind[1]) {
        al.push(TriggerEvent::NormalSent);
    }
    if u(Event::BlockingEnd) || accounting_block {
        al.push(TriggerEvent::BlockingEnd);
    }
    for id in ids {
        let machine = MachineId::from_raw(id);
        if id >= n && id != n.max(2) {
            continue;
        }
        if u(Event::PaddingSent) || has_kind[1] {
            al.push(TriggerEvent::PaddingSent { machine });
        }
        if u(Event::BlockingBegin) || has_kind[2] {
            al.push(TriggerEvent::BlockingBegin { machine });
        }
        if u(Event::TimerBegin) || has_kind[3] {
            al.push(TriggerEvent::TimerBegin { machine });
        }
        if u(Event::TimerEnd) {
            al.push(TriggerEvent::TimerEnd { machine });
        }
    }
    if al.is_empty() {
        al.push(TriggerEvent::NormalSent);
    }
    (al, accounting_block)
}

fn small_family(r: &mut Xo) -> Vec<Machine> {
    let mut cfg = MCfg::dyadic();
    cfg.max_states = 3;
    cfg.density16 = *r.pick(&[2, 3, 5]);
    cfg.small_times = true;
    let n = r.range(1, 3) as usize;
    (0..n)
        .map(|_| {
            let mut c = cfg.clone();
            // focus each machine on a few aspects so that the alphabet stays small
            c.allow_counters = r.chance(1, 2);
            c.allow_signal = r.chance(1, 2);
            c.budgets = r.chance(1, 3);
            gen_machine(r, &c)
        })
        .collect()
}

impl Prop for C05x {
    fn cases(&self, tier: Tier) -> u64 {
        match tier {
            Tier::Quick => 640,
            Tier::Thorough => 1_600,
        }
    }

    fn run_case(&mut self, cx: &CaseCx, out: &mut Out) {
        // families do not depend on VERIF_SEED ordering only: the seed selects which families
        let mut r = xo(cx.seed);
        let machines = small_family(&mut r);
        let pf = *r.pick(&[0.0, 0.0, 0.5]);
        let bf = *r.pick(&[0.0, 0.0, 0.5]);
        let (alpha1, block_acct) = relevant_alphabet(&machines);
        let steps: Vec<i64> = if block_acct || bf > 0.0 { vec![0, 1, 1_000_000, -5] } else { vec![1, -5] };
        let (depth, budget) = match cx.tier {
            Tier::Quick => (3usize, 300_000u64),
            Tier::Thorough => (4usize, 5_000_000u64),
        };
        out.evaluations += 1;
        let handle = SharedChoice::default();
        let start = VClock(1 << 40);
        handle.set(&[]);
        let fw = match Framework::new(&machines[..], pf, bf, start, handle.clone()) {
            Ok(f) => f,
            Err(e) => {
                out.violation("C05/construction", format!("{e}"), json!({"machines": machines_json(&machines)}));
                return;
            }
        };
        let reference = match RefFw::new(&machines, pf, bf, start, fw.verif_log()) {
            Ok(r) => r,
            Err(e) => {
                out.violation("C05/construction", e, json!({"machines": machines_json(&machines)}));
                return;
            }
        };
        let root = Node { fw, reference, now: start };
        let mut total_nodes = 0u64;
        let mut closed = true;
        let mut transitions = 0;
        // (i) single-event calls to `depth`; (ii) batches of two events to depth 2
        let singles: Vec<Vec<TriggerEvent>> = alpha1.iter().map(|e| vec![e.clone()]).collect();
        let mut pairs: Vec<Vec<TriggerEvent>> = vec![vec![]];
        for a in &alpha1 {
            for b in &alpha1 {
                pairs.push(vec![a.clone(), b.clone()]);
            }
        }
        // choose depths whose full tree fits the node budget (x4 headroom for draw branching)
        let fits = |width: u64, d: usize| width.saturating_pow(d as u32).saturating_mul(4) <= budget;
        let w1 = (singles.len() * steps.len()) as u64;
        let mut d1 = depth;
        while d1 > 2 && !fits(w1, d1) {
            d1 -= 1;
        }
        let w2 = (pairs.len() * steps.len()) as u64;
        let d2 = if fits(w2, 2) { 2usize } else { 1 };
        out.bump(&format!("families_single_event_depth_{d1}"));
        out.bump(&format!("families_batch_depth_{d2}"));
        for (alphabet, d) in [(singles, d1), (pairs, d2)] {
            let mut s = Search {
                handle: handle.clone(),
                alphabet,
                steps: steps.clone(),
                nodes: 0,
                budget,
                path: vec![],
                states: &mut self.states,
                transitions: 0,
                draws_max: 0,
                only_transition_draws: only_transition_draws(&machines),
                _m: std::marker::PhantomData,
            };
            let res = s.explore(&root, d);
            total_nodes += s.nodes;
            transitions += s.transitions;
            out.max("draws_in_one_call", s.draws_max as u64);
            match res {
                Ok(()) => {}
                Err(None) => closed = false,
                Err(Some((sig, msg))) => {
                    let path = s.path.clone();
                    out.violation(
                        sig,
                        msg,
                        json!({"machines": machines_json(&machines), "max_padding_frac": pf, "max_blocking_frac": bf,
                               "path": path, "note": "draws are quarter indices k: the draw value is k/4"}),
                    );
                    closed = false;
                    break;
                }
            }
        }
        out.add("nodes", total_nodes);
        out.add("transitions", transitions);
        if closed {
            self.closed += 1;
            out.bump("families_closed");
            out.nontrivial(crate::util::hash_of(&machines.iter().map(|m| m.serialize()).collect::<Vec<_>>()));
        } else {
            self.unclosed += 1;
            out.bump("families_not_closed_within_node_budget");
        }
        out.max("alphabet_size", alpha1.len() as u64);
        out.sample(|| {
            json!({"machines": machines_json(&machines), "alphabet": fmt_events(&alpha1), "time_steps": steps,
                   "depth_single": d1, "depth_pairs": d2, "nodes": total_nodes, "closed": closed})
        });
        let _ = add_stats;
    }

    fn finish(&mut self, out: &mut Out) {
        out.add("distinct_framework_states_seen_per_shard", self.states.len() as u64);
    }
}
