//! C06 — transitions follow the declared probabilities over the whole RNG output space. For each
//! probability vector the real `State::sample_state` is called with every one of the 2^23 distinct
//! values the uniform draw can take; the per-target counts are compared with the exact rationals
//! p_i * 2^23. The dispatch of the sampled target is then observed through `trigger_events` with
//! probe machines whose target states carry distinguishable actions. The vector sits on any of the 13
//! events; internal events (LimitReached, CounterZero, Signal) are raised through the framework by a
//! scenario built for that purpose, and every other scenario must leave the machine where it is.

use enum_map::enum_map;
use maybenot::action::{Action, Timer};
use maybenot::constants::{STATE_END, STATE_SIGNAL};
use maybenot::event::{Event, TriggerEvent};
use maybenot::state::{State, Trans};
use maybenot::{Framework, Machine};
use serde_json::json;

use crate::drive::trigger;
use crate::gen::constant;
use crate::util::{hash_of, xo, Pick, VClock, WordRng, Xo};
use crate::{CaseCx, Out, Prop, Tier};

#[derive(Default)]
pub struct C06 {}

const N: u64 = 1 << 23;

fn gen_vector(r: &mut Xo, case: u64) -> Vec<Trans> {
    let _ = case;
    let k = if r.chance(1, 8) { 1 } else { r.range(1, 8) as usize };
    // target ids: distinct regular states 1..=k plus possibly the pseudo-states
    let mut ids: Vec<usize> = (1..=k).collect();
    if k >= 2 && r.chance(1, 2) {
        ids[k - 1] = STATE_END;
    }
    if k >= 3 && r.chance(1, 2) {
        ids[k - 2] = STATE_SIGNAL;
    }
    if k == 1 && r.chance(1, 4) {
        ids[0] = *r.pick(&[STATE_END, STATE_SIGNAL]);
    }
    let unit = 1.0f32 / N as f32; // 2^-23
    loop {
        let probs: Vec<f32> = match r.below(8) {
            // dyadic at the draw's resolution: multiples of 2^-23
            0 | 1 => {
                let total = *r.pick(&[N, N, N / 2, N - 1, 1, 2, k as u64, N / 4 + 1]).max(&(k as u64));
                let mut cuts: Vec<u64> = (0..k - 1).map(|_| r.range(1, total - 1)).collect();
                cuts.push(0);
                cuts.push(total);
                cuts.sort();
                cuts.dedup();
                if cuts.len() != k + 1 {
                    continue;
                }
                cuts.windows(2).map(|w| (w[1] - w[0]) as f32 * unit).collect()
            }
            // equal shares
            2 => (0..k).map(|_| 1.0 / k as f32).collect(),
            // a sum one to k+1 units in the last place above one: refused by validation as it stands and never
            // returned from here; a validation that tolerates them hands out vectors whose last targets cannot
            // get their declared share, and then these are the vectors that show it
            7 => {
                let mut v: Vec<f32> = (0..k).map(|_| 1.0 / k as f32).collect();
                if k >= 2 && r.chance(1, 2) {
                    v[0] = 0.5;
                    let rest = 0.5 / (k - 1) as f32;
                    for p in v.iter_mut().skip(1) {
                        *p = rest;
                    }
                }
                let s: f32 = v.iter().sum();
                let j = r.range(1, k as u64 + 1) as u32;
                let last = k - 1;
                let want = f32::from_bits(1.0f32.to_bits() + j);
                v[last] += want - s;
                v
            }
            // coarse dyadic
            3 => {
                let den = *r.pick(&[2u32, 4, 8, 16, 1024]);
                let mut left = den;
                let mut v = vec![];
                for i in 0..k {
                    if left < (k - i) as u32 {
                        break;
                    }
                    let q = if i == k - 1 && r.chance(1, 2) { left } else { r.range(1, (left - (k - i - 1) as u32) as u64) as u32 };
                    v.push(q as f32 / den as f32);
                    left -= q;
                }
                if v.len() != k {
                    continue;
                }
                v
            }
            // resolution limits
            4 => {
                let mut v: Vec<f32> = (0..k)
                    .map(|_| *r.pick(&[f32::EPSILON, f32::MIN_POSITIVE, 1.0e-45, unit, unit / 2.0, 3.0 * unit, 1.0e-10, 0.5, 0.25]))
                    .collect();
                if r.chance(1, 2) {
                    let s: f32 = v.iter().skip(1).sum();
                    if s < 1.0 {
                        v[0] = 1.0 - s;
                    }
                }
                v
            }
            // random, sum exactly or nearly one, or small
            _ => {
                let total: f32 = *r.pick(&[1.0, 1.0, 0.999_999_9, 0.5, 0.1]) * if r.chance(1, 4) { r.unit_f64() as f32 } else { 1.0 };
                let ws: Vec<f32> = (0..k).map(|_| r.unit_f64() as f32 + 1.0e-3).collect();
                let s: f32 = ws.iter().sum();
                ws.iter().map(|w| w / s * total).collect()
            }
        };
        let v: Vec<Trans> = ids.iter().zip(probs.iter()).map(|(t, p)| Trans(*t, *p)).collect();
        // must be admitted by validation
        let st = State::new(enum_map! { Event::NormalSent => v.clone(), _ => vec![] });
        if st.validate(k + 1).is_ok() {
            return v;
        }
    }
}

use crate::gen::ALL_EVENTS as EVENTS;

fn ext(ev: Event) -> Option<TriggerEvent> {
    let machine = maybenot::MachineId::from_raw(0);
    Some(match ev {
        Event::NormalRecv => TriggerEvent::NormalRecv,
        Event::PaddingRecv => TriggerEvent::PaddingRecv,
        Event::TunnelRecv => TriggerEvent::TunnelRecv,
        Event::NormalSent => TriggerEvent::NormalSent,
        Event::TunnelSent => TriggerEvent::TunnelSent,
        Event::BlockingEnd => TriggerEvent::BlockingEnd,
        Event::PaddingSent => TriggerEvent::PaddingSent { machine },
        Event::BlockingBegin => TriggerEvent::BlockingBegin { machine },
        Event::TimerBegin => TriggerEvent::TimerBegin { machine },
        Event::TimerEnd => TriggerEvent::TimerEnd { machine },
        Event::LimitReached | Event::CounterZero | Event::Signal => return None,
    })
}

/// A scenario raises event `raise` in machine 0 while it sits in state 0, whose only declared vector
/// (apart from what the scenario itself needs) is `v` on event `e`.
struct Scenario {
    machines: Vec<Machine>,
    calls: Vec<Vec<TriggerEvent>>,
    /// the events machine 0 receives in state 0 in the course of the scenario
    delivered: Vec<Event>,
}

fn scenario(v: &[Trans], e: Event, raise: Event, variant: u64) -> Scenario {
    use maybenot::counter::{Counter, Operation};
    // machine 0: state 0 moves on `e` per the vector; state i carries SendPadding(timeout i)
    let nstates = v.iter().filter(|t| t.0 < STATE_SIGNAL).map(|t| t.0).max().unwrap_or(0) + 1;
    let mut t0 = enum_map! { _ => vec![] };
    t0[e] = v.to_vec();
    // the set-up event used by the CounterZero and Signal scenarios
    let su = if e == Event::NormalRecv { Event::PaddingRecv } else { Event::NormalRecv };
    let mut extra: Vec<State> = vec![];
    let mut action0 = None;
    let mut counter0 = (None, None);
    let mut delivered = vec![raise];
    let mut m1_signals_on = None;
    let calls = match raise {
        Event::LimitReached => {
            let (a, carrier) = match variant % 3 {
                0 => (
                    Action::SendPadding {
                        bypass: false,
                        replace: false,
                        timeout: constant(1000.0),
                        limit: Some(constant(1.0)),
                    },
                    Event::PaddingSent,
                ),
                1 => (
                    Action::BlockOutgoing {
                        bypass: false,
                        replace: false,
                        timeout: constant(1000.0),
                        duration: constant(1.0),
                        limit: Some(constant(1.0)),
                    },
                    Event::BlockingBegin,
                ),
                _ => (
                    Action::UpdateTimer {
                        replace: false,
                        duration: constant(1000.0),
                        limit: Some(constant(1.0)),
                    },
                    Event::TimerBegin,
                ),
            };
            action0 = Some(a);
            delivered.push(carrier);
            vec![vec![ext(carrier).unwrap()]]
        }
        Event::CounterZero => {
            // 0 --su--> X (counter +1) --su--> 0 (counter -1 = 0): CounterZero is raised in state 0
            let x = nstates;
            if t0[su].is_empty() {
                t0[su] = vec![Trans(x, 1.0)];
            }
            let mut sx = State::new(enum_map! { Event::NormalRecv | Event::PaddingRecv => vec![Trans(0, 1.0)], _ => vec![] });
            let inc = Counter::new(Operation::Increment);
            let dec = Counter::new(Operation::Decrement);
            if variant % 2 == 0 {
                sx.counter = (Some(inc), None);
                counter0 = (Some(dec), None);
            } else {
                sx.counter = (None, Some(inc));
                counter0 = (None, Some(dec));
            }
            extra.push(sx);
            delivered.push(su);
            vec![vec![ext(su).unwrap()], vec![ext(su).unwrap()]]
        }
        Event::Signal => {
            m1_signals_on = Some(su);
            delivered.push(su);
            vec![vec![ext(su).unwrap()]]
        }
        // BlockingBegin is a global event: every machine receives it whichever machine (or none) it names
        Event::BlockingBegin => {
            let id = [0usize, 1, 7][(variant % 3) as usize];
            vec![vec![TriggerEvent::BlockingBegin { machine: maybenot::MachineId::from_raw(id) }]]
        }
        _ => vec![vec![ext(raise).unwrap()]],
    };
    let mut s0 = State::new(t0);
    s0.action = action0;
    s0.counter = counter0;
    let mut states = vec![s0];
    for i in 1..nstates {
        let mut s = State::new(enum_map! { _ => vec![] });
        s.action = Some(Action::SendPadding {
            bypass: false,
            replace: false,
            timeout: constant(i as f64),
            limit: None,
        });
        states.push(s);
    }
    states.extend(extra);
    let m0 = Machine::new(u64::MAX, 0.0, u64::MAX, 0.0, states).unwrap();
    // machine 1: answers a Signal with a Cancel (and signals on the set-up event in the Signal scenario)
    let mut t1 = enum_map! { Event::Signal => vec![Trans(1, 1.0)], _ => vec![] };
    if let Some(ev) = m1_signals_on {
        t1[ev] = vec![Trans(STATE_SIGNAL, 1.0)];
    }
    let s0 = State::new(t1);
    let mut s1 = State::new(enum_map! { _ => vec![] });
    s1.action = Some(Action::Cancel { timer: Timer::All });
    let m1 = Machine::new(0, 0.0, 0, 0.0, vec![s0, s1]).unwrap();
    Scenario {
        machines: vec![m0, m1],
        calls,
        delivered,
    }
}

/// The vector sits in a state P that is entered with counter A = 1; every regular target decrements A
/// on entry, which raises CounterZero there, and its CounterZero vector ends the machine. The action
/// of the target that was entered is still due (the nested transition schedules nothing), so the
/// returned action identifies the sampled target although the machine ends in the same call.
fn chained_scenario(v: &[Trans], e: Event) -> (Scenario, usize) {
    use maybenot::counter::{Counter, Operation};
    let nstates = v.iter().filter(|t| t.0 < STATE_SIGNAL).map(|t| t.0).max().unwrap_or(0) + 1;
    let su = if e == Event::NormalRecv { Event::PaddingRecv } else { Event::NormalRecv };
    let p = nstates;
    let mut t0 = enum_map! { _ => vec![] };
    t0[su] = vec![Trans(p, 1.0)];
    let mut states = vec![State::new(t0)];
    for i in 1..nstates {
        let mut s = State::new(enum_map! { Event::CounterZero => vec![Trans(STATE_END, 1.0)], _ => vec![] });
        s.action = Some(Action::SendPadding {
            bypass: false,
            replace: false,
            timeout: constant(i as f64),
            limit: None,
        });
        s.counter = (Some(Counter::new(Operation::Decrement)), None);
        states.push(s);
    }
    let mut tp = enum_map! { _ => vec![] };
    tp[e] = v.to_vec();
    let mut sp = State::new(tp);
    sp.counter = (Some(Counter::new(Operation::Increment)), None);
    states.push(sp);
    let m0 = Machine::new(u64::MAX, 0.0, u64::MAX, 0.0, states).unwrap();
    let s0 = State::new(enum_map! { Event::Signal => vec![Trans(1, 1.0)], _ => vec![] });
    let mut s1 = State::new(enum_map! { _ => vec![] });
    s1.action = Some(Action::Cancel { timer: Timer::All });
    let m1 = Machine::new(0, 0.0, 0, 0.0, vec![s0, s1]).unwrap();
    (
        Scenario {
            machines: vec![m0, m1],
            calls: vec![vec![ext(su).unwrap()], vec![ext(e).unwrap()]],
            delivered: vec![e],
        },
        p,
    )
}

/// (state of machine 0, its action in the last call, whether machine 1 saw a Signal in the last call)
fn run_scenario(sc: &Scenario, word: u32) -> Result<(usize, Option<crate::drive::Act>, bool, Vec<crate::drive::Act>), String> {
    let fw_rng = WordRng { word, draws: 0 };
    let mut fw = Framework::new(&sc.machines[..], 0.0, 0.0, VClock(0), fw_rng).map_err(|e| format!("{e}"))?;
    let mut acts = vec![];
    for (i, c) in sc.calls.iter().enumerate() {
        acts = trigger(&mut fw, c, VClock(1 + i as u64));
    }
    let snap = fw.verif_snapshot();
    let m0_state = snap.machines[0].current_state;
    let m0_act = acts.iter().find(|a| a.machine == 0).cloned();
    let signalled = acts.iter().any(|a| a.machine == 1 && a.kind == 0);
    Ok((m0_state, m0_act, signalled, acts))
}

impl Prop for C06 {
    fn cases(&self, tier: Tier) -> u64 {
        match tier {
            Tier::Quick => 2_400,
            Tier::Thorough => 160_000,
        }
    }

    fn run_case(&mut self, cx: &CaseCx, out: &mut Out) {
        let mut r = xo(cx.seed);
        let v = gen_vector(&mut r, cx.case);
        let k = v.len();
        // the event the vector is declared for
        let e = if r.chance(1, 4) { Event::NormalSent } else { *r.pick(&EVENTS) };
        let mut tv = enum_map! { _ => vec![] };
        tv[e] = v.clone();
        let st = State::new(tv);
        out.bump(&format!("vectors_on_{e:?}"));
        out.evaluations += 1;
        let desc = || json!({"event": format!("{e:?}"), "targets": v.iter().map(|t| t.0).collect::<Vec<_>>(), "probabilities": v.iter().map(|t| t.1).collect::<Vec<_>>(),
                              "probability_bits": v.iter().map(|t| format!("{:#010x}", t.1.to_bits())).collect::<Vec<_>>()});
        // 1. enumerate the whole draw space
        let mut counts = vec![0u64; k];
        let mut none = 0u64;
        let mut rng = WordRng { word: 0, draws: 0 };
        // thresholds: first draw value selecting each outcome, for the framework probe below
        let mut first_of: Vec<Option<u32>> = vec![None; k + 1];
        for kk in 0..N as u32 {
            rng.word = kk << 9;
            match st.sample_state(e, &mut rng) {
                None => {
                    none += 1;
                    if first_of[k].is_none() {
                        first_of[k] = Some(kk);
                    }
                }
                Some(t) => match v.iter().position(|x| x.0 == t) {
                    Some(i) => {
                        counts[i] += 1;
                        if first_of[i].is_none() {
                            first_of[i] = Some(kk);
                        }
                    }
                    None => {
                        out.violation("C06/undeclared-target", format!("draw {kk} selected target {t} which the vector does not declare"), desc());
                        return;
                    }
                },
            }
        }
        out.add("draws_enumerated", N);
        if rng.draws != N {
            out.violation(
                "C06/draws-per-sample",
                format!("{} random words consumed for {} samples (exactly one 32-bit word per sample expected)", rng.draws, N),
                desc(),
            );
            return;
        }
        // expected shares: p_i * 2^23 is exact in f64 (an f32 times a power of two)
        let share = |p: f32| p as f64 * N as f64;
        let all_grid = v.iter().all(|t| share(t.1).fract() == 0.0);
        let tol = 2.0 + k as f64 / 2.0;
        let mut sum_share = 0.0f64;
        for (i, t) in v.iter().enumerate() {
            let want = share(t.1);
            sum_share += want;
            let got = counts[i] as f64;
            if all_grid {
                if got != want {
                    out.violation(
                        "C06/share-mismatch-exact",
                        format!("target {} (p = {}): selected by {got} of 2^23 draws, exactly {want} prescribed (all probabilities are multiples of 2^-23)", t.0, t.1),
                        desc(),
                    );
                    return;
                }
            } else if (got - want).abs() > tol {
                out.violation(
                    "C06/share-mismatch",
                    format!("target {} (p = {}): selected by {got} of 2^23 draws, p*2^23 = {want}, tolerance {tol}", t.0, t.1),
                    desc(),
                );
                return;
            }
        }
        if all_grid {
            out.bump("vectors_on_the_2^-23_grid_checked_exactly");
        }
        let want_none = (N as f64 - sum_share).max(0.0);
        if want_none == 0.0 {
            out.bump("vectors_summing_to_exactly_one");
        } else {
            out.bump("vectors_with_residual");
        }
        let got_none = none as f64;
        if all_grid {
            if got_none != want_none {
                out.violation(
                    "C06/residual-mismatch-exact",
                    format!("{got_none} of 2^23 draws took no transition, exactly {want_none} prescribed"),
                    desc(),
                );
                return;
            }
        } else if (got_none - want_none).abs() > tol + k as f64 {
            out.violation(
                "C06/residual-mismatch",
                format!("{got_none} of 2^23 draws took no transition, (1 - sum p) * 2^23 = {want_none}"),
                desc(),
            );
            return;
        }
        if k == 1 && v[0].1 == 1.0 {
            out.bump("probability_one_vectors");
        }
        if v.iter().any(|t| t.0 == STATE_END) {
            out.bump("vectors_with_end_target");
        }
        if v.iter().any(|t| t.0 == STATE_SIGNAL) {
            out.bump("vectors_with_signal_target");
        }
        // 2. the low 9 bits of the word never matter; an event without declared transitions never moves
        // random draws, and the draws where it matters most: both ends of the draw space and both sides
        // of every boundary between outcomes (a draw formed from all 32 bits would round up to 1.0 at the top)
        let mut low_bit_draws: Vec<u32> = vec![0, 1, N as u32 - 1, N as u32 - 2];
        for f in first_of.iter().flatten() {
            low_bit_draws.push(*f);
            low_bit_draws.push(f.saturating_sub(1));
        }
        low_bit_draws.extend((0..2048).map(|_| r.below(N) as u32));
        for kk in low_bit_draws {
            rng.word = kk << 9;
            let base = st.sample_state(e, &mut rng);
            for low in [1u32, 0x1ff, 0x100] {
                rng.word = (kk << 9) | low;
                if st.sample_state(e, &mut rng) != base {
                    out.violation("C06/low-bits-matter", format!("draw {kk}: the low 9 bits of the word changed the outcome"), desc());
                    return;
                }
            }
            let other = *r.pick(&EVENTS);
            if other != e && st.sample_state(other, &mut rng).is_some() {
                out.violation("C06/moved-without-transition", format!("event {other:?}, for which no transitions are declared, selected a target"), desc());
                return;
            }
        }
        // 3. dispatch through the framework: around every outcome boundary and on a stride
        let variant = r.below(6);
        let sc = scenario(&v, e, e, variant);
        let mut probes: Vec<u32> = (0..256).map(|i| (i as u32) * (N as u32 / 256) + (cx.case as u32 % 31)).collect();
        for f in first_of.iter().flatten() {
            for d in [-1i64, 0, 1] {
                let x = *f as i64 + d;
                if x >= 0 && x < N as i64 {
                    probes.push(x as u32);
                }
            }
        }
        probes.push(N as u32 - 1);
        for kk in probes.iter().copied() {
            rng.word = kk << 9;
            let expect = st.sample_state(e, &mut rng);
            let (m0_state, m0_act, signalled, acts) = match run_scenario(&sc, kk << 9) {
                Ok(x) => x,
                Err(err) => {
                    out.violation("C06/probe-construction", err, desc());
                    return;
                }
            };
            let observed: Option<usize> = if m0_state == STATE_END {
                Some(STATE_END)
            } else if signalled {
                Some(STATE_SIGNAL)
            } else if m0_state != 0 {
                Some(m0_state)
            } else {
                None
            };
            out.bump("framework_probes");
            let consistent = match observed {
                Some(s) if s < STATE_SIGNAL => m0_act.as_ref().map(|a| a.kind == 1 && a.timeout == s as u64).unwrap_or(false) && !signalled,
                Some(s) if s == STATE_SIGNAL => m0_act.is_none() && m0_state == 0,
                Some(_) => m0_act.is_none() && !signalled,
                None => m0_act.is_none() && !signalled,
            };
            if observed != expect || !consistent {
                out.violation(
                    "C06/dispatch-mismatch",
                    format!(
                        "draw {kk}, vector declared for {e:?}: sample_state selects {expect:?}, the framework moved machine 0 to state {m0_state} with actions {acts:?} (signal observed: {signalled})"
                    ),
                    desc(),
                );
                return;
            }
        }
        // 4. every way of raising another event leaves the machine where it is, whatever the draw
        let some_draws: Vec<u32> = first_of.iter().flatten().copied().chain([0, N as u32 - 1, probes[1 + (cx.case % 200) as usize]]).collect();
        for raise in EVENTS {
            let other = scenario(&v, e, raise, variant);
            if other.delivered.contains(&e) {
                continue;
            }
            for kk in some_draws.iter().copied() {
                let (m0_state, m0_act, signalled, acts) = match run_scenario(&other, kk << 9) {
                    Ok(x) => x,
                    Err(err) => {
                        out.violation("C06/probe-construction", err, desc());
                        return;
                    }
                };
                out.bump("framework_probes_of_events_without_declared_transitions");
                if m0_state != 0 || m0_act.is_some() || signalled {
                    out.violation(
                        "C06/moved-without-transition",
                        format!(
                            "draw {kk}: the state declares transitions for {e:?} only, yet raising {raise:?} (machine 0 received {:?}) left machine 0 in state {m0_state} with actions {acts:?} (signal observed: {signalled})",
                            other.delivered
                        ),
                        desc(),
                    );
                    return;
                }
            }
        }
        // 5. the sampled target is entered even when a chained CounterZero ends the machine in the same call
        if ext(e).is_some() {
            let (sc, p) = chained_scenario(&v, e);
            for kk in some_draws.iter().copied().chain(probes.iter().copied().step_by(8)) {
                rng.word = kk << 9;
                let expect = st.sample_state(e, &mut rng);
                let (m0_state, m0_act, signalled, acts) = match run_scenario(&sc, kk << 9) {
                    Ok(x) => x,
                    Err(err) => {
                        out.violation("C06/probe-construction", err, desc());
                        return;
                    }
                };
                out.bump("framework_probes_with_chained_counter_zero");
                let ok = match expect {
                    Some(t) if t < STATE_SIGNAL => m0_state == STATE_END && !signalled && m0_act.as_ref().map_or(false, |a| a.kind == 1 && a.timeout == t as u64),
                    Some(t) if t == STATE_SIGNAL => m0_state == p && m0_act.is_none() && signalled,
                    Some(_) => m0_state == STATE_END && m0_act.is_none() && !signalled,
                    None => m0_state == p && m0_act.is_none() && !signalled,
                };
                if !ok {
                    out.violation(
                        "C06/dispatch-mismatch-chained",
                        format!(
                            "draw {kk}, vector declared for {e:?} in a state entered with counter A = 1, targets decrement A and end on CounterZero: sample_state selects {expect:?}, the framework left machine 0 in state {m0_state} with actions {acts:?} (signal observed: {signalled})"
                        ),
                        desc(),
                    );
                    return;
                }
            }
        }
        out.nontrivial(hash_of(&(e as usize, v.iter().map(|t| (t.0, t.1.to_bits())).collect::<Vec<_>>())));
        out.sample(|| {
            json!({"vector": desc(), "counts_per_target": counts, "draws_without_transition": none, "draw_space": N,
                   "checked_exactly": all_grid})
        });
    }
}
