//! C06 — transitions follow the declared probabilities over the whole RNG output space. For each
//! probability vector the real `State::sample_state` is called with every one of the 2^23 distinct
//! values the uniform draw can take; the per-target counts are compared with the exact rationals
//! p_i * 2^23. The dispatch of the sampled target is then observed through `trigger_events` with
//! probe machines whose target states carry distinguishable actions.

use enum_map::enum_map;
use maybenot::action::{Action, Timer};
use maybenot::constants::{STATE_END, STATE_SIGNAL};
use maybenot::event::{Event, TriggerEvent};
use maybenot::state::{State, Trans};
use maybenot::{Framework, Machine};
use serde_json::json;

use crate::drive::trigger;
use crate::gen::constant;
use crate::util::{hash_of, xo, Pick, VClock, WordRng, Xo};
use crate::{CaseCx, Out, Prop, Tier};

#[derive(Default)]
pub struct C06 {}

const N: u64 = 1 << 23;

fn gen_vector(r: &mut Xo, case: u64) -> Vec<Trans> {
    let _ = case;
    let k = if r.chance(1, 8) { 1 } else { r.range(1, 8) as usize };
    // target ids: distinct regular states 1..=k plus possibly the pseudo-states
    let mut ids: Vec<usize> = (1..=k).collect();
    if k >= 2 && r.chance(1, 2) {
        ids[k - 1] = STATE_END;
    }
    if k >= 3 && r.chance(1, 2) {
        ids[k - 2] = STATE_SIGNAL;
    }
    if k == 1 && r.chance(1, 4) {
        ids[0] = *r.pick(&[STATE_END, STATE_SIGNAL]);
    }
    let unit = 1.0f32 / N as f32; // 2^-23
    loop {
        let probs: Vec<f32> = match r.below(7) {
            // dyadic at the draw's resolution: multiples of 2^-23
            0 | 1 => {
                let total = *r.pick(&[N, N, N / 2, N - 1, 1, 2, k as u64, N / 4 + 1]).max(&(k as u64));
                let mut cuts: Vec<u64> = (0..k - 1).map(|_| r.range(1, total - 1)).collect();
                cuts.push(0);
                cuts.push(total);
                cuts.sort();
                cuts.dedup();
                if cuts.len() != k + 1 {
                    continue;
                }
                cuts.windows(2).map(|w| (w[1] - w[0]) as f32 * unit).collect()
            }
            // equal shares
            2 => (0..k).map(|_| 1.0 / k as f32).collect(),
            // coarse dyadic
            3 => {
                let den = *r.pick(&[2u32, 4, 8, 16, 1024]);
                let mut left = den;
                let mut v = vec![];
                for i in 0..k {
                    if left < (k - i) as u32 {
                        break;
                    }
                    let q = if i == k - 1 && r.chance(1, 2) { left } else { r.range(1, (left - (k - i - 1) as u32) as u64) as u32 };
                    v.push(q as f32 / den as f32);
                    left -= q;
                }
                if v.len() != k {
                    continue;
                }
                v
            }
            // resolution limits
            4 => {
                let mut v: Vec<f32> = (0..k)
                    .map(|_| *r.pick(&[f32::EPSILON, f32::MIN_POSITIVE, 1.0e-45, unit, unit / 2.0, 3.0 * unit, 1.0e-10, 0.5, 0.25]))
                    .collect();
                if r.chance(1, 2) {
                    let s: f32 = v.iter().skip(1).sum();
                    if s < 1.0 {
                        v[0] = 1.0 - s;
                    }
                }
                v
            }
            // random, sum exactly or nearly one, or small
            _ => {
                let total: f32 = *r.pick(&[1.0, 1.0, 0.999_999_9, 0.5, 0.1]) * if r.chance(1, 4) { r.unit_f64() as f32 } else { 1.0 };
                let ws: Vec<f32> = (0..k).map(|_| r.unit_f64() as f32 + 1.0e-3).collect();
                let s: f32 = ws.iter().sum();
                ws.iter().map(|w| w / s * total).collect()
            }
        };
        let v: Vec<Trans> = ids.iter().zip(probs.iter()).map(|(t, p)| Trans(*t, *p)).collect();
        // must be admitted by validation
        let st = State::new(enum_map! { Event::NormalSent => v.clone(), _ => vec![] });
        if st.validate(k + 1).is_ok() {
            return v;
        }
    }
}

fn probe_machines(v: &[Trans]) -> Vec<Machine> {
    // machine 0: state 0 moves on NormalSent per the vector; state i carries SendPadding(timeout i)
    let nstates = v.iter().filter(|t| t.0 < STATE_SIGNAL).map(|t| t.0).max().unwrap_or(0) + 1;
    let mut states = vec![State::new(enum_map! { Event::NormalSent => v.to_vec(), _ => vec![] })];
    for i in 1..nstates {
        let mut s = State::new(enum_map! { _ => vec![] });
        s.action = Some(Action::SendPadding {
            bypass: false,
            replace: false,
            timeout: constant(i as f64),
            limit: None,
        });
        states.push(s);
    }
    let m0 = Machine::new(u64::MAX, 0.0, 0, 0.0, states).unwrap();
    // machine 1: answers a Signal with a Cancel
    let mut s0 = State::new(enum_map! { Event::Signal => vec![Trans(1, 1.0)], _ => vec![] });
    s0.action = None;
    let mut s1 = State::new(enum_map! { _ => vec![] });
    s1.action = Some(Action::Cancel { timer: Timer::All });
    let m1 = Machine::new(0, 0.0, 0, 0.0, vec![s0, s1]).unwrap();
    vec![m0, m1]
}

impl Prop for C06 {
    fn cases(&self, tier: Tier) -> u64 {
        match tier {
            Tier::Quick => 2_400,
            Tier::Thorough => 160_000,
        }
    }

    fn run_case(&mut self, cx: &CaseCx, out: &mut Out) {
        let mut r = xo(cx.seed);
        let v = gen_vector(&mut r, cx.case);
        let k = v.len();
        let st = State::new(enum_map! { Event::NormalSent => v.clone(), _ => vec![] });
        out.evaluations += 1;
        let desc = || json!({"targets": v.iter().map(|t| t.0).collect::<Vec<_>>(), "probabilities": v.iter().map(|t| t.1).collect::<Vec<_>>(),
                              "probability_bits": v.iter().map(|t| format!("{:#010x}", t.1.to_bits())).collect::<Vec<_>>()});
        // 1. enumerate the whole draw space
        let mut counts = vec![0u64; k];
        let mut none = 0u64;
        let mut rng = WordRng { word: 0, draws: 0 };
        // thresholds: first draw value selecting each outcome, for the framework probe below
        let mut first_of: Vec<Option<u32>> = vec![None; k + 1];
        for kk in 0..N as u32 {
            rng.word = kk << 9;
            match st.sample_state(Event::NormalSent, &mut rng) {
                None => {
                    none += 1;
                    if first_of[k].is_none() {
                        first_of[k] = Some(kk);
                    }
                }
                Some(t) => match v.iter().position(|x| x.0 == t) {
                    Some(i) => {
                        counts[i] += 1;
                        if first_of[i].is_none() {
                            first_of[i] = Some(kk);
                        }
                    }
                    None => {
                        out.violation("C06/undeclared-target", format!("draw {kk} selected target {t} which the vector does not declare"), desc());
                        return;
                    }
                },
            }
        }
        out.add("draws_enumerated", N);
        if rng.draws != N {
            out.violation(
                "C06/draws-per-sample",
                format!("{} random words consumed for {} samples (exactly one 32-bit word per sample expected)", rng.draws, N),
                desc(),
            );
            return;
        }
        // expected shares: p_i * 2^23 is exact in f64 (an f32 times a power of two)
        let share = |p: f32| p as f64 * N as f64;
        let all_grid = v.iter().all(|t| share(t.1).fract() == 0.0);
        let tol = 2.0 + k as f64 / 2.0;
        let mut sum_share = 0.0f64;
        for (i, t) in v.iter().enumerate() {
            let want = share(t.1);
            sum_share += want;
            let got = counts[i] as f64;
            if all_grid {
                if got != want {
                    out.violation(
                        "C06/share-mismatch-exact",
                        format!("target {} (p = {}): selected by {got} of 2^23 draws, exactly {want} prescribed (all probabilities are multiples of 2^-23)", t.0, t.1),
                        desc(),
                    );
                    return;
                }
            } else if (got - want).abs() > tol {
                out.violation(
                    "C06/share-mismatch",
                    format!("target {} (p = {}): selected by {got} of 2^23 draws, p*2^23 = {want}, tolerance {tol}", t.0, t.1),
                    desc(),
                );
                return;
            }
        }
        if all_grid {
            out.bump("vectors_on_the_2^-23_grid_checked_exactly");
        }
        let want_none = (N as f64 - sum_share).max(0.0);
        if want_none == 0.0 {
            out.bump("vectors_summing_to_exactly_one");
        } else {
            out.bump("vectors_with_residual");
        }
        let got_none = none as f64;
        if all_grid {
            if got_none != want_none {
                out.violation(
                    "C06/residual-mismatch-exact",
                    format!("{got_none} of 2^23 draws took no transition, exactly {want_none} prescribed"),
                    desc(),
                );
                return;
            }
        } else if (got_none - want_none).abs() > tol + k as f64 {
            out.violation(
                "C06/residual-mismatch",
                format!("{got_none} of 2^23 draws took no transition, (1 - sum p) * 2^23 = {want_none}"),
                desc(),
            );
            return;
        }
        if k == 1 && v[0].1 == 1.0 {
            out.bump("probability_one_vectors");
        }
        if v.iter().any(|t| t.0 == STATE_END) {
            out.bump("vectors_with_end_target");
        }
        if v.iter().any(|t| t.0 == STATE_SIGNAL) {
            out.bump("vectors_with_signal_target");
        }
        // 2. the low 9 bits of the word never matter; an event without declared transitions never moves
        for _ in 0..2048 {
            let kk = r.below(N) as u32;
            rng.word = kk << 9;
            let base = st.sample_state(Event::NormalSent, &mut rng);
            for low in [1u32, 0x1ff, 0x100] {
                rng.word = (kk << 9) | low;
                if st.sample_state(Event::NormalSent, &mut rng) != base {
                    out.violation("C06/low-bits-matter", format!("draw {kk}: the low 9 bits of the word changed the outcome"), desc());
                    return;
                }
            }
            let before = rng.draws;
            if st.sample_state(Event::TunnelRecv, &mut rng).is_some() {
                out.violation("C06/moved-without-transition", "an event without declared transitions selected a target", desc());
                return;
            }
            let _ = before;
        }
        // 3. dispatch through the framework: around every outcome boundary and on a stride
        let machines = probe_machines(&v);
        let mut probes: Vec<u32> = (0..256).map(|i| (i as u32) * (N as u32 / 256) + (cx.case as u32 % 31)).collect();
        for f in first_of.iter().flatten() {
            for d in [-1i64, 0, 1] {
                let x = *f as i64 + d;
                if x >= 0 && x < N as i64 {
                    probes.push(x as u32);
                }
            }
        }
        probes.push(N as u32 - 1);
        for kk in probes {
            rng.word = kk << 9;
            let expect = st.sample_state(Event::NormalSent, &mut rng);
            let fw_rng = WordRng { word: kk << 9, draws: 0 };
            let mut fw = match Framework::new(&machines[..], 0.0, 0.0, VClock(0), fw_rng) {
                Ok(f) => f,
                Err(e) => {
                    out.violation("C06/probe-construction", format!("{e}"), desc());
                    return;
                }
            };
            let acts = trigger(&mut fw, &[TriggerEvent::NormalSent], VClock(1));
            let snap = fw.verif_snapshot();
            let m0_state = snap.machines[0].current_state;
            let m0_act = acts.iter().find(|a| a.machine == 0);
            let signalled = acts.iter().any(|a| a.machine == 1 && a.kind == 0);
            let observed: Option<usize> = if m0_state == STATE_END {
                Some(STATE_END)
            } else if signalled {
                Some(STATE_SIGNAL)
            } else if m0_state != 0 {
                Some(m0_state)
            } else {
                None
            };
            out.bump("framework_probes");
            let consistent = match observed {
                Some(s) if s < STATE_SIGNAL => m0_act.map(|a| a.kind == 1 && a.timeout == s as u64).unwrap_or(false) && !signalled,
                Some(s) if s == STATE_SIGNAL => m0_act.is_none() && m0_state == 0,
                Some(_) => m0_act.is_none() && !signalled,
                None => m0_act.is_none() && !signalled,
            };
            if observed != expect || !consistent {
                out.violation(
                    "C06/dispatch-mismatch",
                    format!(
                        "draw {kk}: sample_state selects {expect:?}, the framework moved machine 0 to state {m0_state} with actions {acts:?} (signal observed: {signalled})"
                    ),
                    desc(),
                );
                return;
            }
        }
        out.nontrivial(hash_of(&v.iter().map(|t| (t.0, t.1.to_bits())).collect::<Vec<_>>()));
        out.sample(|| {
            json!({"vector": desc(), "counts_per_target": counts, "draws_without_transition": none, "draw_space": N,
                   "checked_exactly": all_grid})
        });
    }
}
