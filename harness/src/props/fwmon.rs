//! Shared runner for the framework-level monitors (C02, C03, C04, C07, C08, C09): drives one
//! framework over a generated history on the virtual clock and hands every call (inputs, returned
//! actions, step log, snapshots) to a monitor.

use maybenot::event::{Event, TriggerEvent};
use maybenot::verif::{Snapshot, Step};
use maybenot::{Framework, Machine};
use serde_json::{json, Value};

use crate::drive::{apply_step, machines_json, trigger, Act, EvGen, Fw};
use crate::gen::{fmt_events, gen_step, HCfg};
use crate::util::{ScriptRng, VClock, Xo};
use crate::Out;

pub struct CallRec<'c> {
    pub index: usize,
    pub events: &'c [TriggerEvent],
    pub now: VClock,
    pub acts: &'c [Act],
    pub log: &'c [Step],
    pub before: &'c Snapshot<VClock>,
    pub after: &'c Snapshot<VClock>,
}

pub type Verdict = Result<(), (String, String)>;

pub trait Monitor {
    fn start(&mut self, _machines: &[Machine], _pf: f64, _bf: f64, _start: VClock, _init_log: &[Step]) -> Verdict {
        Ok(())
    }
    fn call(&mut self, rec: &CallRec<'_>, out: &mut Out) -> Verdict;
    /// The monitor may steer the virtual clock (e.g. to land exactly on a boundary of its predicate).
    fn suggest_step(&mut self, _r: &mut Xo, _now: VClock) -> Option<i64> {
        None
    }
}

pub struct Scenario<'a> {
    pub machines: &'a [Machine],
    pub pf: f64,
    pub bf: f64,
    pub start: VClock,
    pub rng: ScriptRng,
    pub h: HCfg,
    /// keep the virtual time below this value (exactness of f64 conversions)
    pub max_time: u64,
    /// extra events mixed in with this probability (in 1/16): chosen by the closure
    pub extra16: u64,
    /// when set, call i delivers exactly script(i) (the generated history is not used)
    pub script: Option<&'a dyn Fn(usize, &[Act]) -> Vec<TriggerEvent>>,
    // (the second argument: the actions the previous call returned)
}

pub struct RunSummary {
    pub calls: u64,
    pub actions: u64,
    pub trace: Vec<String>,
    pub hist_hash: u64,
}

/// Runs the scenario; on the first monitor error returns it with the trace so far.
pub fn run_scenario(
    sc: Scenario<'_>,
    r: &mut Xo,
    mon: &mut dyn Monitor,
    out: &mut Out,
    mut extra: impl FnMut(&mut Xo, &[Act]) -> Option<TriggerEvent>,
) -> Result<RunSummary, (String, String, Vec<String>)> {
    let mut trace: Vec<String> = vec![];
    let mut fw: Fw<'_> = match Framework::new(sc.machines, sc.pf, sc.bf, sc.start, sc.rng) {
        Ok(f) => f,
        Err(e) => return Err(("construction".into(), format!("Framework::new failed: {e}"), trace)),
    };
    if let Err((s, m)) = mon.start(sc.machines, sc.pf, sc.bf, sc.start, fw.verif_log()) {
        return Err((s, m, trace));
    }
    let n = sc.machines.len();
    let mut eg = EvGen::default();
    let mut now = sc.start;
    let mut actions = 0u64;
    let mut hist_hash = 0u64;
    let mut last_acts: Vec<Act> = vec![];
    for i in 0..sc.h.calls {
        let mut events = match sc.script {
            Some(f) => f(i, &last_acts),
            None => eg.next_batch(r, n, &sc.h),
        };
        if sc.extra16 > 0 {
            use crate::util::Pick;
            for e in events.iter_mut() {
                if r.chance(sc.extra16, 16) {
                    if let Some(x) = extra(r, &last_acts) {
                        *e = x;
                    }
                }
            }
        }
        let step = match mon.suggest_step(r, now) {
            Some(s) => s,
            None => gen_step(r, &sc.h),
        };
        now = apply_step(now, step);
        if now.0 > sc.max_time {
            now = VClock(sc.max_time);
        }
        if trace.len() < 400 {
            trace.push(format!("t={} [{}]", now.0, fmt_events(&events)));
        }
        hist_hash = crate::util::hash_of(&(hist_hash, now.0, &events));
        let before = fw.verif_snapshot();
        let acts = trigger(&mut fw, &events, now);
        let after = fw.verif_snapshot();
        actions += acts.len() as u64;
        let rec = CallRec {
            index: i,
            events: &events,
            now,
            acts: &acts,
            log: fw.verif_log(),
            before: &before,
            after: &after,
        };
        // the step log is a record made inside the implementation: tie it to what the call returned.
        // Per machine the returned action is that of the state of the last Scheduled step that no
        // Withdrawn step followed, and there is none if there is no such step.
        let mut last_sched: Vec<Option<usize>> = vec![None; n];
        for st in fw.verif_log() {
            match st {
                Step::Scheduled { machine, state } if *machine < n => last_sched[*machine] = Some(*state),
                Step::Withdrawn { machine } if *machine < n => last_sched[*machine] = None,
                _ => {}
            }
        }
        let mut tie: Result<(), String> = Ok(());
        for m in 0..n {
            let got: Vec<&Act> = acts.iter().filter(|a| a.machine == m).collect();
            match last_sched[m] {
                None if !got.is_empty() => tie = Err(format!("machine {m}: {:?} returned although the steps of the call left nothing scheduled for it", got)),
                Some(st) => match (sc.machines[m].states.get(st).and_then(|s| s.action.as_ref()), got.as_slice()) {
                    (Some(def), [a]) => {
                        if let Err(e) = crate::refsem::check_action(def, a) {
                            tie = Err(format!("machine {m}: the last action scheduled in the call is that of state {st}, {e}"));
                        }
                    }
                    (Some(_), other) => tie = Err(format!("machine {m}: the action of state {st} was scheduled last and not withdrawn, the call returned {other:?}")),
                    (None, _) => tie = Err(format!("machine {m}: Scheduled step for state {st}, which defines no action")),
                },
                _ => {}
            }
            if tie.is_err() {
                break;
            }
        }
        if let Err(m) = tie {
            let msg = format!("call #{i} (t={}, events [{}]): {m}", now.0, fmt_events(&events));
            return Err(("returned-actions-differ-from-the-steps-taken".into(), msg, trace));
        }
        out.bump("calls_with_returned_actions_tied_to_the_step_log");
        if let Err((s, m)) = mon.call(&rec, out) {
            let mut msg = format!("call #{i} (t={}, events [{}]): {m}", now.0, fmt_events(&events));
            if out.verbose {
                msg += &format!("\nstate before: {:?}\nlog: {:#?}", before.machines, fw.verif_log());
            }
            return Err((s, msg, trace));
        }
        eg.observe(&acts);
        last_acts = acts;
    }
    Ok(RunSummary {
        calls: sc.h.calls as u64,
        actions,
        trace,
        hist_hash,
    })
}

pub fn witness(machines: &[Machine], pf: f64, bf: f64, rng_seed: u64, start: VClock, trace: &[String]) -> Value {
    json!({
        "machines": machines_json(machines),
        "max_padding_frac": pf,
        "max_blocking_frac": bf,
        "rng_seed": rng_seed,
        "start": start.0,
        "history_tail": trace.iter().rev().take(14).rev().collect::<Vec<_>>(),
    })
}

/// The deliveries at the top level (not nested, not the signal round) that a batch must cause, in
/// order: (machine, event, is a completion of that machine's own action).
pub fn top_level_deliveries(events: &[TriggerEvent], n: usize) -> Vec<(usize, Event, bool)> {
    let mut v = vec![];
    for e in events {
        match e {
            TriggerEvent::NormalRecv => (0..n).for_each(|m| v.push((m, Event::NormalRecv, false))),
            TriggerEvent::PaddingRecv => (0..n).for_each(|m| v.push((m, Event::PaddingRecv, false))),
            TriggerEvent::TunnelRecv => (0..n).for_each(|m| v.push((m, Event::TunnelRecv, false))),
            TriggerEvent::NormalSent => (0..n).for_each(|m| v.push((m, Event::NormalSent, false))),
            TriggerEvent::TunnelSent => (0..n).for_each(|m| v.push((m, Event::TunnelSent, false))),
            TriggerEvent::BlockingEnd => (0..n).for_each(|m| v.push((m, Event::BlockingEnd, false))),
            TriggerEvent::BlockingBegin { machine } => {
                (0..n).for_each(|m| v.push((m, Event::BlockingBegin, m == machine.into_raw())))
            }
            TriggerEvent::PaddingSent { machine } => {
                if machine.into_raw() < n {
                    v.push((machine.into_raw(), Event::PaddingSent, true));
                }
            }
            TriggerEvent::TimerBegin { machine } => {
                if machine.into_raw() < n {
                    v.push((machine.into_raw(), Event::TimerBegin, true));
                }
            }
            TriggerEvent::TimerEnd { machine } => {
                if machine.into_raw() < n {
                    v.push((machine.into_raw(), Event::TimerEnd, false));
                }
            }
        }
    }
    v
}

pub fn is_internal(e: Event) -> bool {
    matches!(e, Event::LimitReached | Event::CounterZero | Event::Signal)
}

/// Exact test `a / b < f` for integers a, b and a positive finite f64 `f`; `b == 0` counts as
/// below iff `a == 0`.
pub fn frac_below(a: u64, b: u64, f: f64) -> bool {
    if b == 0 {
        return a == 0;
    }
    if a == 0 {
        return f > 0.0;
    }
    if !(f > 0.0) {
        return false;
    }
    if f.is_infinite() {
        return true;
    }
    // f = m * 2^e with integer m
    let bits = f.to_bits();
    let exp = ((bits >> 52) & 0x7ff) as i64;
    let frac = bits & ((1u64 << 52) - 1);
    let (m, e) = if exp == 0 { (frac, -1074i64) } else { (frac | (1u64 << 52), exp - 1075) };
    // a/b < m*2^e  <=>  a < m*b*2^e
    let mb = m as u128 * b as u128; // < 2^117
    if e >= 0 {
        if e >= 12 {
            return true; // m >= 2^52 here, so m*b*2^e >= 2^64 > a
        }
        return (a as u128) < (mb << e);
    }
    let sh = (-e) as u32;
    // a * 2^sh < mb ?
    if sh >= 128 || (a as u128).leading_zeros() < sh {
        return false; // a * 2^sh >= 2^128 > mb
    }
    ((a as u128) << sh) < mb
}
