//! C11 — machine strings round-trip exactly and hostile strings are rejected safely.

use std::io::{Read, Write};
use std::panic::{catch_unwind, AssertUnwindSafe};
use std::str::FromStr;

use base64::prelude::*;
use bincode::Options;
use flate2::read::ZlibDecoder;
use flate2::write::ZlibEncoder;
use flate2::Compression;
use maybenot::dist::{Dist, DistType};
use maybenot::parsing::parse_v1_machine;
use maybenot::{Framework, Machine};
use rand_core::RngCore;
use serde_json::json;

use crate::alloc_track;
use crate::drive::{trigger, EvGen};
use crate::gen::{gen_machine, HCfg, MCfg};
use crate::props::c12::encode_bytes;
use crate::util::{hash_of, xo, Pick, ScriptRng, VClock, Xo};
use crate::{panic_sig, take_panic, CaseCx, Out, Prop, Tier};

#[derive(Default)]
pub struct C11 {
    bombs_done: bool,
    boundary_done: bool,
}

/// A valid machine whose bincode encoding has exactly `target` bytes (the documented limit and its
/// neighbours): many states with random parameters, then filler states of 16 / 19 / 22 / 27 bytes.
/// a state whose encoding is close to incompressible: five Normal distributions whose mean, start and
/// max are random bit patterns (validation does not constrain them) and whose deviation is a random
/// positive finite number
fn dense_state(r: &mut Xo) -> maybenot::state::State {
    use enum_map::enum_map;
    use maybenot::action::Action;
    use maybenot::counter::{Counter, Operation};
    use maybenot::event::Event;
    use maybenot::state::{State, Trans};
    let mut d = |r: &mut Xo| loop {
        let mean = f64::from_bits(r.next_u64());
        let stdev = f64::from_bits(r.next_u64() & 0x7fef_ffff_ffff_ffff);
        let dist = Dist::new(DistType::Normal { mean, stdev }, f64::from_bits(r.next_u64()), f64::from_bits(r.next_u64()));
        if dist.validate().is_ok() {
            return dist;
        }
    };
    let p = f32::from_bits(0x3f00_0000 | (r.next_u64() as u32 & 0x007f_ffff)); // [0.5, 1)
    let mut s = State::new(enum_map! { Event::NormalSent => vec![Trans(0, p)], _ => vec![] });
    s.action = Some(Action::BlockOutgoing {
        bypass: r.chance(1, 2),
        replace: r.chance(1, 2),
        timeout: d(r),
        duration: d(r),
        limit: Some(d(r)),
    });
    s.counter = (Some(Counter::new_dist(Operation::Increment, d(r))), Some(Counter::new_dist(Operation::Set, d(r))));
    s
}

/// `mode`: 0 = 1200 random states then empty filler states, 1 = nothing but filler (compresses about
/// 1000:1), 2 = dense states throughout (hardly compresses: the string is longer than the encoding)
fn machine_of_exact_size(r: &mut Xo, target: u64, mode: u8) -> Option<Machine> {
    let compressible = mode == 1;
    use enum_map::enum_map;
    use maybenot::action::{Action, Timer};
    use maybenot::event::Event;
    use maybenot::state::{State, Trans};
    // the base decides how well the encoding compresses: 1200 states with random parameters, or a
    // single empty state (then the whole machine is repetition and compresses about 1000:1)
    let mut m = if compressible {
        Machine::new(0, 0.0, 0, 0.0, vec![State::new(enum_map! { _ => vec![] }), State::new(enum_map! { _ => vec![] })]).ok()?
    } else if mode == 2 {
        Machine::new(0, 0.0, 0, 0.0, vec![State::new(enum_map! { _ => vec![] })]).ok()?
    } else {
        big_machine(r, 1200)
    };
    let filler = |size: u64| -> State {
        match size {
            16 => State::new(enum_map! { _ => vec![] }),
            19 => {
                let mut s = State::new(enum_map! { _ => vec![] });
                s.action = Some(Action::Cancel { timer: Timer::All });
                s
            }
            22 => State::new(enum_map! { Event::NormalSent => vec![Trans(0, 1.0)], _ => vec![] }),
            _ => State::new(enum_map! { Event::NormalSent => vec![Trans(0, 0.5), Trans(1, 0.5)], _ => vec![] }),
        }
    };
    if mode == 2 {
        m = Machine::new(r.next_u64(), r.unit_f64(), r.next_u64(), r.unit_f64(), vec![dense_state(r)]).ok()?;
        let one = bincode_size(&m);
        while bincode_size(&m) + 66 * one + 4096 < target {
            for _ in 0..64 {
                m.states.push(dense_state(r));
            }
        }
        while bincode_size(&m) + one + 700 < target {
            m.states.push(dense_state(r));
        }
    }
    // bulk: 16-byte states until close to the target
    loop {
        let size = bincode_size(&m);
        if size + 4096 >= target {
            break;
        }
        let n = ((target - size - 2048) / 16).min(20_000);
        for _ in 0..n {
            m.states.push(filler(16));
        }
    }
    // exact: fill the remainder with a combination of fillers whose encoded sizes are measured
    let kinds = [16u64, 19, 22, 27];
    let base = bincode_size(&m);
    let mut delta = [0u64; 4];
    for (i, k) in kinds.iter().enumerate() {
        m.states.push(filler(*k));
        delta[i] = bincode_size(&m) - base;
        m.states.pop();
    }
    let mut reach = [false; 600];
    reach[0] = true;
    for v in 1..600usize {
        reach[v] = delta.iter().any(|c| v as u64 >= *c && reach[v - *c as usize]);
    }
    for _ in 0..4000 {
        let size = bincode_size(&m);
        if size == target {
            return if m.validate().is_ok() { Some(m) } else { None };
        }
        if size > target {
            if std::env::var("VH_DEBUG").is_ok() {
                eprintln!("exact-size: overshoot {size} > {target}");
            }
            return None;
        }
        let diff = target - size;
        let pick = if diff >= 600 { Some(0usize) } else { (0..4).rev().find(|i| diff >= delta[*i] && reach[(diff - delta[*i]) as usize]) };
        m.states.push(filler(kinds[pick?]));
    }
    None
}

const MIB: usize = 1 << 20;

const V1_CORPUS: [&str; 3] = [
    "789cedca2101000000c230e85f1a8387009f9e351d051503ca0003",
    "789cd5cfbb0900200c04d08b833886adb889389f5bb9801be811acb58ae2837ce02010c158b070555c9538b6377a64dbb0ceff242c20b79038507dd169fbede9f629bf6f021efa1b66",
    "789ccdd14b4802411807f0d122d630a80e75e920646a9db2d24bd48c9587b012bc04415d32e856eca107d4210f792809a38804e910f400835ca88387d8961e144920b551aed8b59032cc0e59d16c0f41962510dafa0d0cc3cc77f8bef9cbc0b7e0092f06f131832c076f3f21c0e88d464f4c1b51449d3731df6b432feb0fa1f6e20e841f3fc801e5bd5f3d28efa43d8bbc1a1a5f6692e12589b860c84f62f752fbcd3e14605fb549f6bb6de86e0c1a7a028d88f09575d9a7dad2491120ff6279b0a1ca84ecf551ab6b418502adca267a486bc28f5fb20d4a7cb2db0d32fe34c94067ccda6d64afe1dba926585a782e5a2fb5dcdd9496721e42dfd5e35aed5e04865a0a9a13c3ec9ff62707db89d7b391233d1ae7a35458d219ce3049dd40b40827966d52e24a1c4a0be362a05fcde9923b97d0ecf1fa2b9f39c14f181ceeb914c74273f52cb9143e862b7d1554dd565850f7dfbd03f1ca70ff",
];

fn bincode_size(m: &Machine) -> u64 {
    bincode::DefaultOptions::new().serialized_size(m).unwrap_or(u64::MAX)
}

/// make the encoding incompressible: random parameters everywhere
fn randomize_numbers(r: &mut Xo, m: &mut Machine) {
    for s in m.states.iter_mut() {
        let rd = |r: &mut Xo| Dist::new(DistType::Uniform { low: r.unit_f64(), high: 1.0 + r.unit_f64() * 1.0e6 }, r.unit_f64(), 2.0e6 + r.unit_f64());
        if let Some(a) = s.action.as_mut() {
            match a {
                maybenot::action::Action::SendPadding { timeout, limit, .. } => {
                    *timeout = rd(r);
                    *limit = Some(rd(r));
                }
                maybenot::action::Action::BlockOutgoing { timeout, duration, limit, .. } => {
                    *timeout = rd(r);
                    *duration = rd(r);
                    *limit = Some(rd(r));
                }
                maybenot::action::Action::UpdateTimer { duration, limit, .. } => {
                    *duration = rd(r);
                    *limit = Some(rd(r));
                }
                _ => {}
            }
        }
    }
}

fn big_machine(r: &mut Xo, nstates: usize) -> Machine {
    let mut cfg = MCfg::wild();
    cfg.max_states = nstates;
    cfg.density16 = *r.pick(&[1, 3, 6]);
    cfg.action16 = 15;
    loop {
        // gen_machine draws the state count in 1..=max_states; force large counts by retrying
        let mut c = cfg.clone();
        c.max_states = nstates;
        let states: Vec<maybenot::state::State> = (0..nstates).map(|_| crate::gen::gen_state(r, &c, nstates)).collect();
        if let Ok(mut m) = Machine::new(r.next_u64(), r.unit_f64(), r.next_u64(), r.unit_f64(), states) {
            randomize_numbers(r, &mut m);
            if m.validate().is_ok() {
                return m;
            }
        }
    }
}

fn viol(sig: &str, msg: String) -> Result<(), (String, String)> {
    Err((format!("C11/{sig}"), msg))
}

/// (i) round trip of a valid machine
fn round_trip(r: &mut Xo, m: &Machine, out: &mut Out) -> Result<(), (String, String)> {
    let size = bincode_size(m);
    if size > MIB as u64 {
        out.bump("valid_machines_over_1MiB_(out_of_scope)");
        return Ok(());
    }
    let s = m.serialize();
    out.add("round_trip_string_bytes", s.len() as u64);
    let compressed_len = s.len() * 3 / 4;
    if compressed_len > 32 * 1024 {
        out.bump("round_trips_with_compressed_form_over_32KiB");
    }
    if compressed_len > 256 * 1024 {
        out.bump("round_trips_with_compressed_form_over_256KiB");
    }
    let base = alloc_track::reset_peak();
    let parsed = Machine::from_str(&s);
    let peak = alloc_track::peak().saturating_sub(base);
    let m2 = match parsed {
        Ok(m2) => m2,
        Err(e) => return viol("roundtrip-parse-failed", format!("a valid machine ({} states, bincode {size} B, string {} B) does not parse back: {e}", m.states.len(), s.len())),
    };
    let bound = MIB + 3 * 65_536 * std::mem::size_of::<maybenot::state::State>() + 2 * s.len();
    out.max("from_str_peak_heap_bytes_valid", peak as u64);
    if peak > bound {
        return viol("memory-bound", format!("from_str of a valid {} B string peaked at {peak} B of heap (bound {bound})", s.len()));
    }
    let s2 = m2.serialize();
    if s2 != s {
        return viol("roundtrip-string-differs", format!("re-serialized string differs (lengths {} vs {})", s.len(), s2.len()));
    }
    if m2.name() != m.name() {
        return viol("roundtrip-name-differs", format!("{} vs {}", m.name(), m2.name()));
    }
    if m2.validate().is_err() {
        return viol("parsed-machine-invalid", "round-tripped machine fails validation".into());
    }
    // drives a framework identically
    let seed = r.next_u64();
    let a = [m.clone()];
    let b = [m2];
    let mut fa = Framework::new(&a[..], 0.5, 0.5, VClock(0), ScriptRng::fair(seed)).map_err(|e| ("C11/framework-new".to_string(), format!("{e}")))?;
    let mut fb = Framework::new(&b[..], 0.5, 0.5, VClock(0), ScriptRng::fair(seed)).map_err(|e| ("C11/framework-new".to_string(), format!("{e}")))?;
    let h = HCfg { calls: 40, max_batch: 4, empty: true, backwards: false, huge_steps: false, unknown_ids: true };
    let mut eg = EvGen::default();
    let mut now = VClock(0);
    for i in 0..h.calls {
        let ev = eg.next_batch(r, 1, &h);
        now = VClock(now.0 + r.range(0, 5000));
        let x = trigger(&mut fa, &ev, now);
        let y = trigger(&mut fb, &ev, now);
        if x != y {
            return viol("roundtrip-behaviour-differs", format!("call #{i}: original returned {x:?}, round-tripped machine {y:?}"));
        }
        eg.observe(&x);
    }
    out.bump("round_trips");
    Ok(())
}

fn mutate_bytes(r: &mut Xo, b: &mut Vec<u8>) {
    if b.is_empty() {
        b.push(r.next_u64() as u8);
        return;
    }
    for _ in 0..r.range(1, 4) {
        let n = b.len();
        match r.below(8) {
            0 => {
                let i = r.below(n as u64) as usize;
                b[i] ^= 1 << r.below(8);
            }
            1 => {
                let i = r.below(n as u64) as usize;
                b[i] = r.next_u64() as u8;
            }
            2 => {
                let i = r.below(n as u64 + 1) as usize;
                b.truncate(i);
            }
            3 => {
                let i = r.below(n as u64 + 1) as usize;
                b.insert(i, r.next_u64() as u8);
            }
            4 => {
                // length-prefix attack: a varint for a huge length
                let i = r.below(n as u64) as usize;
                let v: &[u8] = *r.pick(&[&[0xfd, 0xff, 0xff, 0xff, 0xff][..], &[0xfc, 0xff, 0xff][..], &[0xfb, 0xff, 0xff, 0xff, 0xff, 0xff, 0xff, 0xff, 0xff][..], &[0xfa][..], &[250][..]]);
                b.splice(i..(i + 1).min(n), v.iter().cloned());
            }
            5 => {
                let i = r.below(n as u64) as usize;
                let j = (i + r.range(1, 16) as usize).min(n);
                let chunk: Vec<u8> = b[i..j].to_vec();
                let k = r.below(b.len() as u64 + 1) as usize;
                b.splice(k..k, chunk);
            }
            6 => {
                let i = r.below(n as u64) as usize;
                for x in b.iter_mut().skip(i).take(8) {
                    *x = 0xff;
                }
            }
            _ => {
                let i = r.below(n as u64) as usize;
                for x in b.iter_mut().skip(i).take(8) {
                    *x = 0;
                }
            }
        }
        if b.is_empty() {
            break;
        }
    }
}

fn zlib(b: &[u8]) -> Vec<u8> {
    let mut e = ZlibEncoder::new(Vec::new(), Compression::fast());
    e.write_all(b).unwrap();
    e.finish().unwrap()
}

fn unzlib(b: &[u8]) -> Option<Vec<u8>> {
    let mut d = ZlibDecoder::new(b);
    let mut out = vec![];
    d.take(4 << 20).read_to_end(&mut out).ok()?;
    Some(out)
}

/// a hostile string derived from a valid one (or from nothing)
fn hostile(r: &mut Xo, valid: &str, out: &mut Out) -> String {
    match r.below(9) {
        0 => {
            // character level
            let mut b = valid.as_bytes().to_vec();
            mutate_bytes(r, &mut b);
            out.bump("hostile_string_level");
            String::from_utf8_lossy(&b).into_owned()
        }
        1 | 2 => {
            // compressed layer
            let mut c = BASE64_STANDARD.decode(&valid.as_bytes()[2..]).unwrap_or_default();
            mutate_bytes(r, &mut c);
            out.bump("hostile_zlib_level");
            format!("02{}", BASE64_STANDARD.encode(c))
        }
        3..=5 => {
            // bincode layer
            let c = BASE64_STANDARD.decode(&valid.as_bytes()[2..]).unwrap_or_default();
            let mut p = unzlib(&c).unwrap_or_default();
            mutate_bytes(r, &mut p);
            out.bump("hostile_bincode_level");
            encode_bytes(&p)
        }
        6 => {
            out.bump("hostile_wrong_version");
            let v = *r.pick(&["01", "03", "00", "2", "", " 2", "0x", "20"]);
            format!("{v}{}", &valid[2..])
        }
        7 => {
            if r.chance(1, 3) {
                // very short strings and strings that are (mostly) white space or control characters:
                // the version prefix, the length guard and any trimming meet here
                out.bump("hostile_short_or_blank");
                let alphabet = [b' ', b' ', b'\t', b'\n', b'\r', 0x0b, 0x0c, b'0', b'2', b'e', b'=', b'+', b'/', 0x7f, 0x01];
                let n = r.range(0, 8) as usize;
                let mut v: Vec<u8> = (0..n).map(|_| *r.pick(&alphabet)).collect();
                if r.chance(1, 3) {
                    // a valid string wrapped in or followed by white space
                    let ws = *r.pick(&[" ", "\n", "\r\n", "\t", "  \n"]);
                    let mut w = if r.chance(1, 2) { ws.as_bytes().to_vec() } else { vec![] };
                    w.extend_from_slice(valid.as_bytes());
                    w.extend_from_slice(ws.as_bytes());
                    v = w;
                }
                return String::from_utf8_lossy(&v).into_owned();
            }
            if r.chance(1, 8) {
                // a well-formed encoding of a shape the constructors cannot build
                out.bump("hostile_empty_transition_vector");
                if let Some(s) = crate::props::c12::empty_vector_string(r.below(13) as usize, r.chance(1, 2)) {
                    return s;
                }
            }
            out.bump("hostile_random_ascii");
            let n = r.range(0, 200) as usize;
            (0..n).map(|_| (r.range(32, 126) as u8) as char).collect()
        }
        _ => {
            out.bump("hostile_non_ascii");
            let mut s = valid.to_string();
            let i = r.below(s.len() as u64 + 1) as usize;
            s.insert_str(i, *r.pick(&["é", "\u{0}", "💣", "\u{ffff}", "ß"]));
            s
        }
    }
}

fn check_hostile(s: &str, out: &mut Out) -> Result<(), (String, String)> {
    let base = alloc_track::reset_peak();
    let res = catch_unwind(AssertUnwindSafe(|| Machine::from_str(s)));
    let peak = alloc_track::peak().saturating_sub(base);
    // the judgement on a string must not depend on what was parsed before: parse it again at once
    let again = catch_unwind(AssertUnwindSafe(|| Machine::from_str(s)));
    match (&res, &again) {
        (Ok(Err(_)), Ok(Ok(m2))) => {
            return viol(
                "judgement-changes-on-reparse",
                format!("from_str rejected the string, then accepted the same string on the next call (machine valid: {})", m2.validate().is_ok()),
            );
        }
        (Ok(Ok(_)), Ok(Err(e))) => return viol("judgement-changes-on-reparse", format!("from_str accepted the string, then rejected it on the next call: {e}")),
        (Ok(Ok(a)), Ok(Ok(b))) => {
            if b.validate().is_err() || a.serialize() != b.serialize() {
                return viol("judgement-changes-on-reparse", "two consecutive parses of one string returned different machines".into());
            }
        }
        _ => {}
    }
    match res {
        Err(_) => {
            let (msg, loc) = take_panic();
            return viol(&format!("panic/{}", panic_sig(&msg, &loc)), format!("from_str panicked: {msg} at {loc}"));
        }
        Ok(Ok(m)) => {
            out.bump("hostile_strings_accepted");
            if let Err(e) = m.validate() {
                return viol("accepted-invalid-machine", format!("from_str returned a machine that fails validation: {e}"));
            }
        }
        Ok(Err(e)) => {
            out.bump("hostile_strings_rejected");
            let es = e.to_string();
            if !(es.contains("base64") || es.contains("version") || es.contains("ascii") || es.contains("short") || es.contains("deflate") || es.contains("corrupt") || es.contains("zlib") || es.contains("stream")) {
                out.bump("hostile_strings_reaching_the_bincode_layer");
            }
        }
    }
    let bound = MIB + 3 * 65_536 * std::mem::size_of::<maybenot::state::State>() + 2 * s.len();
    out.max("from_str_peak_heap_bytes_hostile", peak as u64);
    if peak > bound {
        return viol("memory-bound", format!("from_str of a hostile {} B string peaked at {peak} B of heap (bound {bound})", s.len()));
    }
    Ok(())
}

fn check_v1(s: &str, out: &mut Out) -> Result<(), (String, String)> {
    let res = catch_unwind(AssertUnwindSafe(|| parse_v1_machine(s)));
    if let (Ok(a), Ok(b)) = (&res, &catch_unwind(AssertUnwindSafe(|| parse_v1_machine(s)))) {
        if a.is_ok() != b.is_ok() || b.as_ref().map(|m| m.validate().is_err()).unwrap_or(false) {
            return viol("v1-judgement-changes-on-reparse", "parse_v1_machine judged the same string differently on two consecutive calls".into());
        }
    }
    match res {
        Err(_) => {
            let (msg, loc) = take_panic();
            viol(&format!("v1-panic/{}", panic_sig(&msg, &loc)), format!("parse_v1_machine panicked: {msg} at {loc}"))
        }
        Ok(Ok(m)) => {
            out.bump("v1_strings_accepted");
            if let Err(e) = m.validate() {
                return viol("v1-accepted-invalid-machine", format!("{e}"));
            }
            // an accepted v1 machine must be expressible in the current format
            if bincode_size(&m) <= MIB as u64 {
                let s2 = m.serialize();
                if Machine::from_str(&s2).is_err() {
                    return viol("v1-machine-does-not-roundtrip", "machine parsed from v1 does not parse from its own serialization".into());
                }
            }
            Ok(())
        }
        Ok(Err(_)) => {
            out.bump("v1_strings_rejected");
            Ok(())
        }
    }
}

/// a v1 payload built field by field: two thirds plausible (every field valid for its place, all 11
/// distribution type ids, padding and blocking actions), one third with hostile values
fn v1_payload(r: &mut Xo) -> Vec<u8> {
    let hostile = r.chance(1, 3);
    let n = if hostile { r.range(0, 4) } else { r.range(1, 4) } as usize;
    let mut b = vec![];
    let version: u16 = if hostile { *r.pick(&[1u16, 1, 1, 1, 0, 2, 0xffff]) } else { 1 };
    b.extend_from_slice(&version.to_le_bytes());
    let f = |r: &mut Xo| -> f64 {
        if hostile {
            *r.pick(&[0.0, 0.0, 0.5, 1.0, 1.0, 2.0, -1.0, f64::NAN, 1.0e-3, 0.25])
        } else {
            *r.pick(&[0.0, 0.0, 0.5, 1.0, 1.0e-3, 0.25])
        }
    };
    b.extend_from_slice(&r.below(1000).to_le_bytes());
    b.extend_from_slice(&f(r).to_le_bytes());
    b.extend_from_slice(&r.below(1000).to_le_bytes());
    b.extend_from_slice(&f(r).to_le_bytes());
    b.push(r.below(2) as u8);
    let declared = if hostile && r.chance(1, 4) { r.below(70000) as u16 } else { n as u16 };
    b.extend_from_slice(&declared.to_le_bytes());
    for _ in 0..n {
        for _ in 0..3 {
            let ty = r.below(13) as u16;
            b.extend_from_slice(&ty.to_le_bytes());
            if hostile {
                for _ in 0..4 {
                    let v: f64 = *r.pick(&[0.0, 1.0, 10.0, 1000.0, 0.5, -1.0, f64::NAN, f64::INFINITY, 1.0e9, 5.0]);
                    b.extend_from_slice(&v.to_le_bytes());
                }
            } else {
                // parameters valid for every family: Uniform needs p1 <= p2, Binomial a probability as p2
                let (p1, p2): (f64, f64) = match ty {
                    1 => {
                        let x = *r.pick(&[0.0, 1.0, 10.0, 1000.0]);
                        (x, x + *r.pick(&[0.0, 1.0, 500.0]))
                    }
                    4 => (*r.pick(&[0.0, 1.0, 10.0, 1000.0]), *r.pick(&[0.0, 0.25, 0.5, 1.0])),
                    _ => (*r.pick(&[0.5, 1.0, 2.0, 10.0]), *r.pick(&[0.5, 1.0, 2.0, 10.0])),
                };
                let start = *r.pick(&[0.0, 0.0, 1.0, 100.0]);
                let max = *r.pick(&[0.0, 0.0, 1000.0, 1.0e6]);
                for v in [p1, p2, start, max] {
                    b.extend_from_slice(&v.to_le_bytes());
                }
            }
        }
        for _ in 0..4 {
            b.push(r.below(if hostile { 3 } else { 2 }) as u8);
        }
        // one probability vector per v1 event (7) plus the one the format reserves
        for _ in 0..8 {
            if hostile {
                let k = if r.chance(1, 3) { r.below(n as u64 + 2) } else { u64::MAX };
                for i in 0..n + 2 {
                    let v: f64 = if i as u64 == k { *r.pick(&[1.0, 1.0, 0.5, 2.0, -1.0, f64::NAN]) } else if r.chance(1, 12) { 0.25 } else { 0.0 };
                    b.extend_from_slice(&v.to_le_bytes());
                }
            } else {
                // targets: a state, or END (index n + 1); index n is the unsupported v1 cancel pseudo-state
                let mut v = vec![0.0f64; n + 2];
                if r.chance(1, 2) {
                    let t = if r.chance(1, 5) { n + 1 } else { r.below(n as u64) as usize };
                    v[t] = *r.pick(&[1.0, 0.5, 0.25]);
                    if r.chance(1, 4) {
                        let t2 = if r.chance(1, 3) { n + 1 } else { r.below(n as u64) as usize };
                        if t2 != t {
                            v[t2] = 0.25;
                        }
                    }
                }
                for x in v {
                    b.extend_from_slice(&x.to_le_bytes());
                }
            }
        }
    }
    b
}

/// zero-filled zlib stream that decompresses to `n` bytes, built by streaming
fn bomb(n: u64) -> String {
    let mut e = ZlibEncoder::new(Vec::new(), Compression::best());
    let chunk = vec![0u8; 1 << 20];
    let mut left = n;
    while left > 0 {
        let k = left.min(chunk.len() as u64) as usize;
        e.write_all(&chunk[..k]).unwrap();
        left -= k as u64;
    }
    format!("02{}", BASE64_STANDARD.encode(e.finish().unwrap()))
}

impl Prop for C11 {
    fn cases(&self, tier: Tier) -> u64 {
        match tier {
            Tier::Quick => 40_000,
            Tier::Thorough => 400_000,
        }
    }

    fn run_case(&mut self, cx: &CaseCx, out: &mut Out) {
        let mut r = xo(cx.seed);
        // compression bombs: once per run, on shard 1 (or shard 0 when there is only one)
        if !self.bombs_done && (cx.shard == 1 || cx.nshards == 1) {
            self.bombs_done = true;
            let sizes: Vec<u64> = match cx.tier {
                Tier::Quick => vec![MIB as u64 + 1, 16 << 20, 256 << 20],
                Tier::Thorough => vec![MIB as u64 + 1, 16 << 20, 256 << 20, 1 << 30, 4 << 30],
            };
            let mut residuals = vec![];
            for n in &sizes {
                let s = bomb(*n);
                out.evaluations += 1;
                let base = alloc_track::reset_peak();
                let res = catch_unwind(AssertUnwindSafe(|| Machine::from_str(&s)));
                let peak = alloc_track::peak().saturating_sub(base);
                if res.is_err() {
                    let (msg, loc) = take_panic();
                    out.violation(format!("C11/panic/{}", panic_sig(&msg, &loc)), format!("bomb of {n} bytes: {msg} at {loc}"), json!({"bomb_decompressed_bytes": n}));
                    return;
                }
                if let Ok(Ok(_)) = res {
                    out.bump("bombs_accepted");
                }
                // the decoded (compressed) input is proportional to the input; what remains must not
                // depend on how far the input would decompress
                let decoded = (s.len() - 2) / 4 * 3;
                residuals.push((n, s.len(), peak, peak.saturating_sub(decoded)));
                out.bump("compression_bombs");
                out.max("bomb_decompressed_bytes", *n);
            }
            out.extra.insert(
                "bombs".into(),
                json!(residuals.iter().map(|(n, l, p, res)| json!({"would_decompress_to": n, "string_bytes": l, "peak_heap_bytes": p, "peak_minus_decoded_input": res})).collect::<Vec<_>>()),
            );
            let lo = residuals.iter().map(|x| x.3).min().unwrap();
            let hi = residuals.iter().map(|x| x.3).max().unwrap();
            if hi - lo > 64 * 1024 || hi > MIB + 512 * 1024 {
                out.violation(
                    "C11/memory-depends-on-decompressed-size",
                    format!("peak heap beyond the input-proportional part ranges from {lo} to {hi} bytes across bombs {sizes:?}"),
                    json!({"bombs": format!("{residuals:?}")}),
                );
                return;
            }
        }
        // machines at the documented size limit: exactly 1 MiB and one byte less (once per run)
        if !self.boundary_done {
            self.boundary_done = true;
            // dealt over the shards: entry i is built by shard (i + 2) mod nshards
            for (idx, (target, mode)) in [
                (MIB as u64, 0u8),
                (MIB as u64 - 1, 0),
                (MIB as u64 - 2, 0),
                (MIB as u64, 1),
                (MIB as u64 - 1, 1),
                (900_000, 1),
                (500_000, 1),
                (100_000, 1),
                // hardly compressible: the serialized string is longer than 1 MiB although the encoding fits
                (MIB as u64, 2),
                (MIB as u64 - 1, 2),
                (1_000_000, 2),
                (800_000, 2),
            ]
            .into_iter()
            .enumerate()
            {
                if (idx as u64 + 2) % cx.nshards != cx.shard {
                    continue;
                }
                let compressible = mode == 1;
                match machine_of_exact_size(&mut r, target, mode) {
                    Some(m) => {
                        out.evaluations += 1;
                        if mode == 2 {
                            out.bump("round_trips_of_hardly_compressible_machines");
                            if m.serialize().len() > MIB {
                                out.bump("round_trips_with_a_string_longer_than_1MiB");
                            }
                        }
                        if std::env::var("VH_DEBUG").is_ok() {
                            eprintln!("exact-size machine: target {target} compressible {compressible} states {} string {} B", m.states.len(), m.serialize().len());
                        }
                        out.bump(if compressible { "round_trips_of_highly_compressible_machines" } else { "round_trips_at_the_size_limit" });
                        if target >= MIB as u64 - 2 && compressible {
                            out.bump("round_trips_at_the_size_limit");
                        }
                        if let Err((sig, msg)) = round_trip(&mut r, &m, out) {
                            out.violation(sig, format!("machine with an encoding of exactly {target} bytes (limit {MIB}): {msg}"), json!({"states": m.states.len(), "bincode_bytes": target}));
                            return;
                        }
                    }
                    None => {
                        if std::env::var("VH_DEBUG").is_ok() {
                            eprintln!("exact-size machine: target {target} mode {mode} NOT constructed");
                        }
                        out.bump("size_limit_machines_not_constructed")
                    }
                }
            }
        }
        // maximally compressible valid machines (tens of thousands of identical empty states): the
        // encoding approaches deflate's maximal expansion ratio of about 1030:1
        if cx.shard == 3 % cx.nshards && cx.case < 4 * cx.nshards {
            use enum_map::enum_map;
            let n = [40_000usize, 58_000, 62_000, 65_534][(cx.case / cx.nshards) as usize % 4];
            let states: Vec<maybenot::state::State> = (0..n).map(|_| maybenot::state::State::new(enum_map! { _ => vec![] })).collect();
            if let Ok(m) = Machine::new(0, 0.0, 0, 0.0, states) {
                out.evaluations += 1;
                out.bump("round_trips_of_highly_compressible_machines");
                out.max("compression_ratio_x10", bincode_size(&m) * 10 / ((m.serialize().len() as u64 - 2) * 3 / 4).max(1));
                if let Err((sig, msg)) = round_trip(&mut r, &m, out) {
                    out.violation(sig, format!("machine of {n} identical empty states: {msg}"), json!({"states": n}));
                    return;
                }
            }
        }
        // a valid machine: mostly small, sometimes large and incompressible
        let m = match r.below(40) {
            0 => {
                let n = *r.pick(&[300, 600, 1000]);
                big_machine(&mut r, n)
            }
            1 => {
                let n = *r.pick(&[1500, 2500, 3500]);
                big_machine(&mut r, n)
            }
            _ => {
                let mut cfg = MCfg::wild();
                cfg.max_states = *r.pick(&[1, 3, 6, 12, 40]);
                gen_machine(&mut r, &cfg)
            }
        };
        out.evaluations += 1;
        let wit = |m: &Machine| json!({"states": m.states.len(), "machine": if m.states.len() <= 12 { m.serialize() } else { format!("({} states, name {})", m.states.len(), m.name()) }});
        if let Err((sig, msg)) = round_trip(&mut r, &m, out) {
            out.violation(sig, msg, wit(&m));
            return;
        }
        if bincode_size(&m) > MIB as u64 {
            return;
        }
        let valid = m.serialize();
        // hostile strings derived from it
        let k = if m.states.len() > 100 { 2 } else { 6 };
        for _ in 0..k {
            let h = hostile(&mut r, &valid, out);
            out.evaluations += 1;
            if let Err((sig, msg)) = check_hostile(&h, out) {
                out.violation(sig, msg, json!({"string": if h.len() < 4000 { h.clone() } else { format!("({} bytes) {}...", h.len(), &h.chars().take(200).collect::<String>()) }}));
                return;
            }
        }
        // legacy parser
        for _ in 0..3 {
            let s = match r.below(4) {
                0 => {
                    let mut b = hex::decode(*r.pick(&V1_CORPUS)).unwrap();
                    mutate_bytes(&mut r, &mut b);
                    hex::encode(b)
                }
                1 => {
                    let c = hex::decode(*r.pick(&V1_CORPUS)).unwrap();
                    let mut p = unzlib(&c).unwrap_or_default();
                    mutate_bytes(&mut r, &mut p);
                    hex::encode(zlib(&p))
                }
                2 => hex::encode(zlib(&v1_payload(&mut r))),
                _ => {
                    let n = r.range(0, 120) as usize;
                    (0..n).map(|_| *r.pick(&['0', '1', '7', '8', '9', 'a', 'c', 'f', 'x', ' '])).collect()
                }
            };
            out.evaluations += 1;
            out.bump("v1_strings");
            if let Err((sig, msg)) = check_v1(&s, out) {
                out.violation(sig, msg, json!({"v1_string": s}));
                return;
            }
        }
        out.nontrivial(hash_of(&valid));
        out.sample(|| json!({"valid_machine_string_bytes": valid.len(), "states": m.states.len(), "string_head": valid.chars().take(80).collect::<String>()}));
    }
}
