//! C05 — actions are a deterministic function of the inputs and match the stated semantics.
//! Random workload: wild machines, long histories, batches; two instances + a clone in lock-step
//! (determinism) and the reference semantics consuming the step log (conformance).

use maybenot::event::TriggerEvent;
use maybenot::{Framework, Machine};
use serde_json::json;

use crate::drive::{apply_step, machines_json, trigger, Act, EvGen, Fw};
use crate::gen::{fmt_events, gen_frac, gen_machines, gen_step, HCfg, MCfg};
use crate::refsem::{RefFw, RuleStats};
use crate::util::{hash_of, xo, Pick, ScriptRng, VClock, Xo};
use crate::{CaseCx, Out, Prop, Tier};

#[derive(Default)]
pub struct C05 {
    states: std::collections::HashSet<u64>,
}

pub fn snap_key(fw: &Fw<'_>) -> u64 {
    let s = fw.verif_snapshot();
    let ms: Vec<_> = s
        .machines
        .iter()
        .map(|m| {
            (
                m.current_state,
                m.state_limit,
                m.padding_sent,
                m.normal_sent,
                m.blocking_duration.0,
                m.counter_a,
                m.counter_b,
            )
        })
        .collect();
    hash_of(&(
        ms,
        s.current_time.0,
        s.normal_sent_packets,
        s.padding_sent_packets,
        s.blocking_duration.0,
        s.blocking_started.0,
        s.blocking_active,
        s.signal_pending,
    ))
}

pub fn classify(msg: &str) -> &'static str {
    if msg.contains("actions returned for machines") {
        "action-set"
    } else if msg.contains("returned (kind") {
        "action-shape"
    } else if msg.contains("outside the support") {
        "sample-outside-support"
    } else if msg.contains("state of machine") {
        "machine-state"
    } else if msg.contains("framework state") {
        "framework-state"
    } else if msg.contains("more internal steps") {
        "extra-steps"
    } else if msg.contains("log ended") {
        "missing-steps"
    } else if msg.contains("Withdrawn") {
        "limit-reached"
    } else if msg.contains("SignalRound") || msg.contains("signal") {
        "signal-round"
    } else if msg.contains("not a declared target") || msg.contains("no transition taken") || msg.contains("sampled target") {
        "transition-target"
    } else if msg.contains("Scheduled") {
        "scheduling"
    } else if msg.contains("CounterOperand") || msg.contains("operand") {
        "counter"
    } else if msg.contains("machine is in (state") {
        "delivery-state"
    } else if msg.contains("expected Deliver") {
        "delivery-order"
    } else {
        "other"
    }
}

pub fn add_stats(out: &mut Out, s: &RuleStats) {
    macro_rules! put {
        ($($f:ident),*) => { $( out.add(concat!("rule:", stringify!($f)), s.$f); )* };
    }
    put!(
        deliveries,
        deliveries_to_ended,
        no_transition_declared,
        sampled_none,
        to_end,
        to_signal,
        self_transition,
        state_change,
        limit_sampled,
        counter_updates,
        counter_copy,
        counter_saturated_hi,
        counter_saturated_lo,
        counter_zero,
        counter_zero_no_permit,
        counter_zero_took_precedence,
        scheduled,
        denied_by_limits,
        denied_padding_budget,
        denied_blocking_budget,
        allowed_by_budget,
        allowed_replace_active,
        limit_decrement,
        limit_reached,
        signal_rounds,
        signal_second_round,
        signal_carried_over,
        blocking_end_accounted,
        time_backwards,
        draws_checked
    );
}

pub struct Lockstep<'a> {
    pub a: Fw<'a>,
    pub b: Fw<'a>,
    pub c: Option<Fw<'a>>,
    pub reference: RefFw<'a>,
    pub now: VClock,
}

impl<'a> Lockstep<'a> {
    pub fn new(machines: &'a [Machine], pf: f64, bf: f64, start: VClock, rng: ScriptRng) -> Result<Self, String> {
        let a = Framework::new(machines, pf, bf, start, rng.clone()).map_err(|e| format!("new failed: {e}"))?;
        let b = Framework::new(machines, pf, bf, start, rng.clone()).map_err(|e| format!("new failed: {e}"))?;
        let mut reference = RefFw::new(machines, pf, bf, start, a.verif_log())?;
        if crate::refsem::only_transition_draws(machines) {
            // the transition draws are the only consumers of randomness: the sampled targets are prescribed
            reference.oracle = Some(crate::refsem::DrawOracle::Script(rng.clone()));
        }
        Ok(Lockstep {
            a,
            b,
            c: None,
            reference,
            now: start,
        })
    }

    /// One call on all instances; Err((signature, message)) on the first discrepancy.
    pub fn call(&mut self, events: &[TriggerEvent], now: VClock) -> Result<Vec<Act>, (String, String)> {
        self.now = now;
        let acts = trigger(&mut self.a, events, now);
        let acts_b = trigger(&mut self.b, events, now);
        if acts != acts_b {
            return Err((
                "C05/nondeterminism-actions".into(),
                format!("two instances fed identically returned {acts:?} and {acts_b:?}"),
            ));
        }
        if snap_key(&self.a) != snap_key(&self.b) {
            return Err((
                "C05/nondeterminism-state".into(),
                "two instances fed identically are in different states".into(),
            ));
        }
        if let Some(c) = self.c.as_mut() {
            let acts_c = trigger(c, events, now);
            if acts != acts_c || snap_key(&self.a) != snap_key(c) {
                return Err((
                    "C05/clone-diverged".into(),
                    format!("an instance and its clone diverged: {acts:?} vs {acts_c:?}"),
                ));
            }
        }
        let snap = self.a.verif_snapshot();
        if let Err(m) = self.reference.call(events, now, self.a.verif_log(), &acts, &snap) {
            return Err((format!("C05/conformance/{}", classify(&m)), m));
        }
        Ok(acts)
    }
}

impl Prop for C05 {
    fn cases(&self, tier: Tier) -> u64 {
        match tier {
            Tier::Quick => 160_000,
            Tier::Thorough => 3_000_000,
        }
    }

    fn run_case(&mut self, cx: &CaseCx, out: &mut Out) {
        let mut r = xo(cx.seed);
        if r.chance(1, 64) {
            out.evaluations += 1;
            if let Err((sig, msg)) = run_fraction_point(&mut r, out) {
                out.violation(sig, msg, json!({"directed": "fraction limit driven to a delicate point"}));
            }
            return;
        }
        let mut cfg = MCfg::wild();
        if r.chance(1, 3) {
            cfg.profile = crate::gen::Profile::Dyadic;
        }
        cfg.density16 = *r.pick(&[3, 6, 10]);
        let machines = gen_machines(&mut r, &cfg, 1, 5);
        let pf = gen_frac(&mut r);
        let bf = gen_frac(&mut r);
        let rng_seed = rand_core::RngCore::next_u64(&mut r);
        let h = HCfg {
            calls: r.range(5, 200) as usize,
            max_batch: *r.pick(&[1, 2, 4, 8]),
            empty: true,
            backwards: true,
            huge_steps: true,
            unknown_ids: true,
        };
        out.evaluations += 1;
        let start = VClock(1 << 40);
        let mut trace: Vec<String> = vec![];
        let res = run(&machines, pf, bf, start, rng_seed, &mut r, &h, &mut trace, &mut self.states, out);
        match res {
            Ok((calls, actions, interesting)) => {
                out.add("calls", calls);
                out.add("actions_returned", actions);
                if actions > 0 && interesting {
                    out.nontrivial(hash_of(&(machines.iter().map(|m| m.serialize()).collect::<Vec<_>>(), &trace)));
                }
                out.sample(|| {
                    json!({"machines": machines_json(&machines), "pf": pf, "bf": bf, "rng_seed": rng_seed,
                           "history_head": trace.iter().take(8).collect::<Vec<_>>(), "calls": calls, "actions": actions})
                });
            }
            Err((sig, msg)) => {
                out.violation(
                    sig,
                    msg,
                    json!({"machines": machines_json(&machines), "max_padding_frac": pf, "max_blocking_frac": bf,
                           "rng_seed": rng_seed, "start": start.0,
                           "history_tail": trace.iter().rev().take(10).rev().collect::<Vec<_>>()}),
                );
            }
        }
    }

    fn finish(&mut self, out: &mut Out) {
        out.add("distinct_framework_states_seen_per_shard", self.states.len() as u64);
    }
}

/// (limit, padding packets, all packets) with padding/all == limit as rationals (limit = k/1000) for which
/// the quotient form `p / t >= limit` and the product form `p >= limit * t` of the same comparison
/// disagree in f64: the points where the way the fraction is computed matters.
fn delicate_fraction_points() -> &'static Vec<(f64, u64, u64)> {
    static T: std::sync::OnceLock<Vec<(f64, u64, u64)>> = std::sync::OnceLock::new();
    T.get_or_init(|| {
        let mut v = vec![];
        for k in 1..1000u64 {
            let l = k as f64 / 1000.0;
            for t in 1..=250u64 {
                if (k * t) % 1000 != 0 {
                    continue;
                }
                let p = k * t / 1000;
                let quotient = p as f64 / t as f64 >= l;
                let product = p as f64 >= l * t as f64;
                let product2 = p as f64 * (1.0 / t as f64) >= l;
                if quotient != product || quotient != product2 {
                    v.push((l, p, t));
                }
            }
        }
        v
    })
}

/// A padding (or blocking) machine driven exactly to one of the delicate points of its fraction limit.
fn run_fraction_point(r: &mut Xo, out: &mut Out) -> Result<(), (String, String)> {
    use enum_map::enum_map;
    use maybenot::action::Action;
    use maybenot::state::{State, Trans};
    let pts = delicate_fraction_points();
    if pts.is_empty() {
        return Ok(());
    }
    let (l, p, t) = pts[r.below(pts.len() as u64) as usize];
    if r.chance(1, 3) {
        // the same for the blocking fraction: p microseconds blocked out of t since the start
        let mut s0 = State::new(enum_map! { _ => vec![Trans(0, 1.0)] });
        s0.action = Some(Action::BlockOutgoing {
            bypass: false,
            replace: false,
            timeout: crate::gen::constant(5.0),
            duration: crate::gen::constant(3.0),
            limit: None,
        });
        let machine_limit = r.chance(1, 2);
        let m = Machine::new(0, 0.0, 0, if machine_limit { l } else { 0.0 }, vec![s0]).map_err(|e| ("C05/construction".to_string(), format!("{e}")))?;
        let machines = [m];
        let bf = if machine_limit { 0.0 } else { l };
        let start = VClock(1 << 40);
        let mut ls = Lockstep::new(&machines, 0.0, bf, start, ScriptRng::fair(7)).map_err(|m| ("C05/construction".to_string(), m))?;
        let id = maybenot::MachineId::from_raw(0);
        let script = [
            (TriggerEvent::BlockingBegin { machine: id }, 0u64),
            (TriggerEvent::BlockingEnd, p),
            (TriggerEvent::NormalRecv, t),
            (TriggerEvent::TunnelRecv, t),
        ];
        for (i, (e, dt)) in script.iter().enumerate() {
            let ctx = |m: String| format!("blocking fraction limit {l} ({}), point {p}us/{t}us, call {i} [{}]: {m}", if machine_limit { "machine" } else { "framework" }, fmt_events(std::slice::from_ref(e)));
            ls.call(std::slice::from_ref(e), VClock(start.0 + dt)).map_err(|(s, m)| (s, ctx(m)))?;
        }
        out.bump("blocking_fraction_limits_driven_to_a_point_where_quotient_and_product_disagree");
        return Ok(());
    }
    let mut s0 = State::new(enum_map! { _ => vec![Trans(0, 1.0)] });
    s0.action = Some(Action::SendPadding {
        bypass: false,
        replace: false,
        timeout: crate::gen::constant(5.0),
        limit: None,
    });
    let machine_limit = r.chance(1, 2);
    let m = Machine::new(0, if machine_limit { l } else { 0.0 }, 0, 0.0, vec![s0]).map_err(|e| ("C05/construction".to_string(), format!("{e}")))?;
    let machines = [m];
    let pf = if machine_limit { 0.0 } else { l };
    let start = VClock(1 << 40);
    let mut ls = Lockstep::new(&machines, pf, 0.0, start, ScriptRng::fair(7)).map_err(|m| ("C05/construction".to_string(), m))?;
    // p PaddingSent and t - p NormalSent in a random order, then events that leave the counts alone
    let mut evs: Vec<TriggerEvent> = (0..p).map(|_| TriggerEvent::PaddingSent { machine: maybenot::MachineId::from_raw(0) }).collect();
    evs.extend((0..t - p).map(|_| TriggerEvent::NormalSent));
    for i in (1..evs.len()).rev() {
        let j = r.below(i as u64 + 1) as usize;
        evs.swap(i, j);
    }
    evs.push(TriggerEvent::NormalRecv);
    evs.push(TriggerEvent::TunnelRecv);
    for (i, e) in evs.iter().enumerate() {
        let ctx = |m: String| format!("fraction limit {l} ({}), point {p}/{t}, call {i} [{}]: {m}", if machine_limit { "machine" } else { "framework" }, fmt_events(std::slice::from_ref(e)));
        ls.call(std::slice::from_ref(e), start).map_err(|(s, m)| (s, ctx(m)))?;
    }
    out.bump("fraction_limits_driven_to_a_point_where_quotient_and_product_disagree");
    Ok(())
}

#[allow(clippy::too_many_arguments)]
fn run(
    machines: &[Machine],
    pf: f64,
    bf: f64,
    start: VClock,
    rng_seed: u64,
    r: &mut Xo,
    h: &HCfg,
    trace: &mut Vec<String>,
    states: &mut std::collections::HashSet<u64>,
    out: &mut Out,
) -> Result<(u64, u64, bool), (String, String)> {
    let mut ls = Lockstep::new(machines, pf, bf, start, ScriptRng::fair(rng_seed)).map_err(|m| ("C05/construction".to_string(), m))?;
    let clone_at = r.below(h.calls as u64) as usize;
    let mut eg = EvGen::default();
    let mut now = start;
    let mut actions = 0u64;
    let n = machines.len();
    for i in 0..h.calls {
        if i == clone_at {
            ls.c = Some(ls.a.clone());
        }
        let events = eg.next_batch(r, n, h);
        let step = gen_step(r, h);
        now = apply_step(now, step);
        if trace.len() < 300 {
            trace.push(format!("t={:+} [{}]", step, fmt_events(&events)));
        }
        let acts = ls.call(&events, now)?;
        actions += acts.len() as u64;
        eg.observe(&acts);
        if states.len() < 2_000_000 {
            states.insert(ls.reference.state_key());
        }
    }
    let s = &ls.reference.stats;
    let interesting = s.limit_reached + s.counter_zero + s.signal_rounds > 0;
    add_stats(out, s);
    Ok((h.calls as u64, actions, interesting))
}
