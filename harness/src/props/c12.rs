//! C12 — validation is sound: whatever Machine::new / Machine::validate / Machine::from_str /
//! Framework::new accept is well-formed by an independent predicate `wf`, and all paths give the
//! same judgement on the same object.

use std::io::Write;
use std::str::FromStr;

use base64::prelude::*;
use bincode::Options;
use enum_map::enum_map;
use flate2::write::ZlibEncoder;
use flate2::Compression;
use maybenot::action::{Action, Timer};
use maybenot::constants::{STATE_END, STATE_SIGNAL};
use maybenot::counter::{Counter, Operation};
use maybenot::dist::{Dist, DistType};
use maybenot::event::Event;
use maybenot::state::{State, Trans};
use maybenot::{Framework, Machine};
use serde::Serialize;
use serde_json::json;

use crate::gen::ALL_EVENTS;
use crate::util::{hash_of, xo, Pick, ScriptRng, VClock, Xo};
use crate::{CaseCx, Out, Prop, Tier};

#[derive(Default)]
pub struct C12 {
    matrix_done: bool,
}

// ---------------------------------------------------------------------------------------------
// the independent well-formedness predicate (NaN-safe comparisons throughout)

fn in01(x: f64) -> bool {
    x >= 0.0 && x <= 1.0
}

pub fn wf_dist(d: &Dist) -> Result<(), String> {
    let pos = |x: f64| x > 0.0; // false for NaN
    let ok = match d.dist {
        DistType::Uniform { low, high } => low.is_finite() && high.is_finite() && low <= high && (high - low).is_finite(),
        DistType::Normal { stdev, .. } => stdev.is_finite(),
        DistType::SkewNormal { scale, shape, .. } => scale.is_finite() && pos(scale) && shape.is_finite(),
        DistType::LogNormal { sigma, .. } => sigma.is_finite(),
        DistType::Binomial { trials, probability } => in01(probability) && (probability == 0.0 || probability >= 1.0e-9) && trials <= 1_000_000_000,
        DistType::Geometric { probability } => in01(probability) && (probability == 0.0 || probability >= 1.0e-9),
        DistType::Pareto { scale, shape } => pos(scale) && pos(shape),
        DistType::Poisson { lambda } => pos(lambda) && lambda <= 1.0e42,
        DistType::Weibull { scale, shape } => pos(scale) && pos(shape),
        DistType::Gamma { scale, shape } => pos(scale) && pos(shape),
        DistType::Beta { alpha, beta } => pos(alpha) && pos(beta),
    };
    if ok {
        Ok(())
    } else {
        Err(format!("distribution parameters outside their domain: {:?}", d.dist))
    }
}

fn wf_action(a: &Action) -> Result<(), String> {
    match a {
        Action::Cancel { .. } => Ok(()),
        Action::SendPadding { timeout, limit, .. } => {
            wf_dist(timeout)?;
            limit.as_ref().map(wf_dist).unwrap_or(Ok(()))
        }
        Action::BlockOutgoing { timeout, duration, limit, .. } => {
            wf_dist(timeout)?;
            wf_dist(duration)?;
            limit.as_ref().map(wf_dist).unwrap_or(Ok(()))
        }
        Action::UpdateTimer { duration, limit, .. } => {
            wf_dist(duration)?;
            limit.as_ref().map(wf_dist).unwrap_or(Ok(()))
        }
    }
}

fn wf_vector(v: &[Trans], nstates: usize) -> Result<(), String> {
    let mut seen = std::collections::HashSet::new();
    let mut sum = 0.0f64;
    for t in v {
        if !(t.0 < nstates || t.0 == STATE_END || t.0 == STATE_SIGNAL) {
            return Err(format!("target {} does not exist", t.0));
        }
        if !seen.insert(t.0) {
            return Err(format!("duplicate target {}", t.0));
        }
        if !(t.1 > 0.0 && t.1 <= 1.0) {
            return Err(format!("probability {} not in (0,1]", t.1));
        }
        sum += t.1 as f64;
    }
    // slack for the f32 accumulation the validator is entitled to
    if !(sum <= 1.0 + v.len() as f64 * 2f64.powi(-24)) {
        return Err(format!("probabilities sum to {sum}"));
    }
    // the sum as the sampler forms it: single precision, in the listed order (its cumulative thresholds
    // must not pass 1)
    let mut s32 = 0.0f32;
    for t in v {
        s32 += t.1;
    }
    if !(s32 <= 1.0) {
        return Err(format!("probabilities accumulate to {s32} in single precision in the listed order (exact sum {sum})"));
    }
    Ok(())
}

/// well-formedness of a machine as far as the public API shows it
pub fn wf_machine(m: &Machine) -> Result<(), String> {
    if !in01(m.max_padding_frac) {
        return Err(format!("max_padding_frac {}", m.max_padding_frac));
    }
    if !in01(m.max_blocking_frac) {
        return Err(format!("max_blocking_frac {}", m.max_blocking_frac));
    }
    if m.states.is_empty() {
        return Err("no states".into());
    }
    let n = m.states.len();
    for (si, s) in m.states.iter().enumerate() {
        let t = s.get_transitions();
        for e in ALL_EVENTS {
            wf_vector(&t[e], n).map_err(|x| format!("state {si}, {e:?}: {x}"))?;
        }
        if let Some(a) = &s.action {
            wf_action(a).map_err(|x| format!("state {si}: {x}"))?;
        }
        for c in [&s.counter.0, &s.counter.1].into_iter().flatten() {
            if let Some(d) = &c.dist {
                wf_dist(d).map_err(|x| format!("state {si} counter: {x}"))?;
            }
        }
    }
    Ok(())
}

// ---------------------------------------------------------------------------------------------
// byte-level mirror of Machine (to reach shapes the constructors cannot build)

#[derive(Serialize, Clone, Debug)]
pub struct MState {
    pub action: Option<Action>,
    pub counter: (Option<Counter>, Option<Counter>),
    pub transitions: [Option<Vec<Trans>>; 13],
}

#[derive(Serialize, Clone, Debug)]
pub struct MMachine {
    pub allowed_padding_packets: u64,
    pub max_padding_frac: f64,
    pub allowed_blocked_microsec: u64,
    pub max_blocking_frac: f64,
    pub states: Vec<MState>,
}

pub fn encode_bytes(bytes: &[u8]) -> String {
    let mut e = ZlibEncoder::new(Vec::new(), Compression::fast());
    e.write_all(bytes).unwrap();
    format!("02{}", BASE64_STANDARD.encode(e.finish().unwrap()))
}

pub fn mirror_string(m: &MMachine) -> Option<String> {
    let b = bincode::DefaultOptions::new().with_limit(1 << 20).serialize(m).ok()?;
    Some(encode_bytes(&b))
}

fn wf_mirror(m: &MMachine) -> Result<(), String> {
    if !in01(m.max_padding_frac) || !in01(m.max_blocking_frac) {
        return Err("fraction".into());
    }
    if m.states.is_empty() {
        return Err("no states".into());
    }
    let n = m.states.len();
    for s in &m.states {
        for v in s.transitions.iter().flatten() {
            wf_vector(v, n)?;
        }
        if let Some(a) = &s.action {
            wf_action(a)?;
        }
        for c in [&s.counter.0, &s.counter.1].into_iter().flatten() {
            if let Some(d) = &c.dist {
                wf_dist(d)?;
            }
        }
    }
    Ok(())
}

// ---------------------------------------------------------------------------------------------
// adversarial numbers

fn next_up(x: f64) -> f64 {
    if x == 0.0 {
        return f64::from_bits(1);
    }
    if x > 0.0 {
        f64::from_bits(x.to_bits() + 1)
    } else {
        f64::from_bits(x.to_bits() - 1)
    }
}
fn next_down(x: f64) -> f64 {
    -next_up(-x)
}

pub fn specials64() -> Vec<f64> {
    let mut v = vec![
        f64::NAN,
        -f64::NAN,
        f64::INFINITY,
        f64::NEG_INFINITY,
        0.0,
        -0.0,
        f64::from_bits(1),
        -f64::from_bits(1),
        f64::MIN_POSITIVE,
        f64::MAX,
        f64::MIN,
        1.0,
        -1.0,
        0.5,
        2.0,
        1.0e-9,
        1.0e9,
        1.0e42,
    ];
    for b in [0.0, 1.0, 1.0e-9, 1.0e42, 1.0e9] {
        v.push(next_up(b));
        v.push(next_down(b));
    }
    v
}

pub fn specials32() -> Vec<f32> {
    let up = |x: f32| if x == 0.0 { f32::from_bits(1) } else { f32::from_bits(x.to_bits() + 1) };
    let down = |x: f32| if x == 0.0 { -f32::from_bits(1) } else { f32::from_bits(x.to_bits() - 1) };
    vec![
        f32::NAN,
        -f32::NAN,
        f32::INFINITY,
        f32::NEG_INFINITY,
        0.0,
        -0.0,
        f32::from_bits(1),
        -f32::from_bits(1),
        f32::MIN_POSITIVE,
        f32::MAX,
        1.0,
        up(1.0),
        down(1.0),
        up(0.0),
        down(0.0),
        0.5,
        -0.5,
        2.0,
        f32::EPSILON,
    ]
}

/// A numeric slot of a one-state machine that can be set to an arbitrary value.
pub const NSLOTS: usize = 36;

fn base_dist() -> Dist {
    Dist::new(DistType::Uniform { low: 1.0, high: 2.0 }, 0.0, 0.0)
}

fn dist_with(slot: usize, x: f64) -> Dist {
    // slots 0..=24 address the parameters of the 11 families, 25/26 start and max
    let u = x.max(0.0).min(2.0e9) as u64; // for trials
    let dt = match slot {
        0 => DistType::Uniform { low: x, high: 2.0 },
        1 => DistType::Uniform { low: 1.0, high: x },
        2 => DistType::Normal { mean: x, stdev: 1.0 },
        3 => DistType::Normal { mean: 1.0, stdev: x },
        4 => DistType::SkewNormal { location: x, scale: 1.0, shape: 1.0 },
        5 => DistType::SkewNormal { location: 1.0, scale: x, shape: 1.0 },
        6 => DistType::SkewNormal { location: 1.0, scale: 1.0, shape: x },
        7 => DistType::LogNormal { mu: x, sigma: 1.0 },
        8 => DistType::LogNormal { mu: 1.0, sigma: x },
        9 => DistType::Binomial { trials: u, probability: 0.5 },
        10 => DistType::Binomial { trials: 10, probability: x },
        11 => DistType::Geometric { probability: x },
        12 => DistType::Pareto { scale: x, shape: 1.0 },
        13 => DistType::Pareto { scale: 1.0, shape: x },
        14 => DistType::Poisson { lambda: x },
        15 => DistType::Weibull { scale: x, shape: 1.0 },
        16 => DistType::Weibull { scale: 1.0, shape: x },
        17 => DistType::Gamma { scale: x, shape: 1.0 },
        18 => DistType::Gamma { scale: 1.0, shape: x },
        19 => DistType::Gamma { scale: x, shape: 0.5 },
        20 => DistType::Gamma { scale: x, shape: 2.0 },
        21 => DistType::Beta { alpha: x, beta: 1.0 },
        22 => DistType::Beta { alpha: 1.0, beta: x },
        23 => DistType::Beta { alpha: x, beta: 3.0 },
        24 => DistType::Uniform { low: -x, high: x },
        25 => return Dist::new(DistType::Uniform { low: 1.0, high: 2.0 }, x, 0.0),
        _ => return Dist::new(DistType::Uniform { low: 1.0, high: 2.0 }, 0.0, x),
    };
    Dist::new(dt, 0.0, 0.0)
}

/// Two (for SkewNormal: two of three) parameters adversarial at once: some judgements depend on a
/// relation between parameters (low <= high, finite range) and fail only for a pair, e.g. both bounds
/// the same infinity.
pub const PAIR_SLOTS: usize = 12;

fn dist_with_pair(slot: usize, x: f64, y: f64) -> Dist {
    let u = x.max(0.0).min(2.0e9) as u64;
    let dt = match slot {
        0 => DistType::Uniform { low: x, high: y },
        1 => DistType::Normal { mean: x, stdev: y },
        2 => DistType::SkewNormal { location: x, scale: y, shape: 1.0 },
        3 => DistType::SkewNormal { location: 1.0, scale: x, shape: y },
        4 => DistType::SkewNormal { location: x, scale: 1.0, shape: y },
        5 => DistType::LogNormal { mu: x, sigma: y },
        6 => DistType::Binomial { trials: u, probability: y },
        7 => DistType::Pareto { scale: x, shape: y },
        8 => DistType::Weibull { scale: x, shape: y },
        9 => DistType::Gamma { scale: x, shape: y },
        10 => DistType::Beta { alpha: x, beta: y },
        _ => return Dist::new(DistType::Uniform { low: 1.0, high: 2.0 }, x, y),
    };
    Dist::new(dt, 0.0, 0.0)
}

/// where the adversarial distribution is placed: every position of a distribution in a state, alone
/// and next to valid siblings
pub const PLACES: usize = 13;

fn place_dist(place: usize, d: Dist) -> (Option<Action>, (Option<Counter>, Option<Counter>)) {
    let ok = base_dist();
    let okc = Some(Counter::new_dist(Operation::Decrement, base_dist()));
    match place {
        0 => (Some(Action::SendPadding { bypass: false, replace: false, timeout: d, limit: None }), (None, None)),
        1 => (Some(Action::SendPadding { bypass: false, replace: false, timeout: ok, limit: Some(d) }), (None, None)),
        2 => (Some(Action::BlockOutgoing { bypass: false, replace: false, timeout: ok, duration: d, limit: None }), (None, None)),
        3 => (Some(Action::UpdateTimer { replace: false, duration: d, limit: None }), (None, None)),
        4 => (None, (Some(Counter::new_dist(Operation::Increment, d)), None)),
        5 => (Some(Action::Cancel { timer: Timer::All }), (None, Some(Counter::new_dist(Operation::Set, d)))),
        6 => (Some(Action::BlockOutgoing { bypass: true, replace: true, timeout: d, duration: ok, limit: Some(ok) }), (None, None)),
        7 => (Some(Action::BlockOutgoing { bypass: true, replace: false, timeout: ok, duration: ok, limit: Some(d) }), (None, None)),
        8 => (Some(Action::UpdateTimer { replace: true, duration: ok, limit: Some(d) }), (None, None)),
        9 => (None, (okc, Some(Counter::new_dist(Operation::Set, d)))),
        10 => (None, (Some(Counter::new_dist(Operation::Set, d)), okc)),
        11 => (Some(Action::SendPadding { bypass: true, replace: true, timeout: ok, limit: Some(ok) }), (okc, Some(Counter::new_dist(Operation::Increment, d)))),
        _ => (Some(Action::BlockOutgoing { bypass: false, replace: false, timeout: ok, duration: d, limit: Some(ok) }), (okc, okc)),
    }
}

pub struct Candidate {
    pub desc: String,
    pub mirror: MMachine,
    /// the same object through the public constructors, if they can express it
    pub machine: Option<Machine>,
}

fn mirror_of(pad: f64, blk: f64, states: Vec<(Option<Action>, (Option<Counter>, Option<Counter>), Vec<(Event, Vec<Trans>)>)>) -> (MMachine, Machine) {
    let mut ms = vec![];
    let mut rs = vec![];
    for (a, c, tv) in states {
        const NONE: Option<Vec<Trans>> = None;
        let mut tr = [NONE; 13];
        let mut em = enum_map! { _ => vec![] };
        for (e, v) in tv {
            if !v.is_empty() {
                tr[e.to_usize()] = Some(v.clone());
            }
            em[e] = v;
        }
        ms.push(MState { action: a, counter: c, transitions: tr });
        let mut s = State::new(em);
        s.action = a;
        s.counter = c;
        rs.push(s);
    }
    (
        MMachine { allowed_padding_packets: 1, max_padding_frac: pad, allowed_blocked_microsec: 1, max_blocking_frac: blk, states: ms },
        Machine { allowed_padding_packets: 1, max_padding_frac: pad, allowed_blocked_microsec: 1, max_blocking_frac: blk, states: rs },
    )
}

pub fn trial_corners() -> Vec<u64> {
    let cap = 1_000_000_000u64;
    let mut v = vec![0, 1, 10, cap - 1, cap, cap + 1, u64::MAX, u64::MAX - 1, (5 << 32) + 7, (1 << 63) + cap, (1 << 16) + 1];
    for k in [8u32, 16, 31, 32, 33, 40, 53, 62, 63] {
        let b = 1u64 << k;
        v.extend([b - 1, b, b + 1, b.wrapping_add(cap), b.wrapping_add(cap + 1)]);
    }
    v
}

/// slot numbering of the matrix: 0..=26 distribution parameter slots (x 6 placements), 27/28 the
/// machine fractions, 29..=31 transition probability shapes (f32), 32.. structural
fn matrix() -> Vec<Candidate> {
    let mut v = vec![];
    let s64 = specials64();
    for slot in 0..=26usize {
        for place in 0..PLACES {
            for x in &s64 {
                let (a, c) = place_dist(place, dist_with(slot, *x));
                // in the only state of a machine, and in the last state of a three-state machine
                let (mm, m) = mirror_of(0.5, 0.5, vec![(a, c, vec![(Event::NormalSent, vec![Trans(0, 1.0)])])]);
                v.push(Candidate { desc: format!("dist slot {slot} placement {place} value {x:e}"), mirror: mm, machine: Some(m) });
                if place % 2 == 1 {
                    let plain = (None, (None, None), vec![(Event::NormalSent, vec![Trans(1, 1.0)])]);
                    let (mm, m) = mirror_of(0.5, 0.5, vec![plain.clone(), plain, (a, c, vec![(Event::NormalRecv, vec![Trans(0, 1.0)])])]);
                    v.push(Candidate { desc: format!("dist slot {slot} placement {place} in state 2 of 3, value {x:e}"), mirror: mm, machine: Some(m) });
                }
            }
        }
    }
    // the one integer parameter (Binomial trials, a u64): corners of the documented cap of 10^9 and of every
    // narrower integer width it might pass through on its way to the comparison
    for t in trial_corners() {
        for p in [0.5, 1.0e-9, 0.0, 1.0] {
            for place in 0..PLACES {
                let (a, c) = place_dist(place, Dist::new(DistType::Binomial { trials: t, probability: p }, 0.0, 0.0));
                let (mm, m) = mirror_of(0.5, 0.5, vec![(a, c, vec![(Event::NormalSent, vec![Trans(0, 1.0)])])]);
                v.push(Candidate { desc: format!("Binomial trials {t} probability {p:e} placement {place}"), mirror: mm, machine: Some(m) });
            }
        }
    }
    for slot in 0..PAIR_SLOTS {
        for place in [0usize, 4, 7] {
            for x in &s64 {
                for y in &s64 {
                    let (a, c) = place_dist(place, dist_with_pair(slot, *x, *y));
                    let (mm, m) = mirror_of(0.5, 0.5, vec![(a, c, vec![(Event::NormalSent, vec![Trans(0, 1.0)])])]);
                    v.push(Candidate { desc: format!("dist pair slot {slot} placement {place} values {x:e}, {y:e}"), mirror: mm, machine: Some(m) });
                }
            }
        }
    }
    for x in &s64 {
        let (mm, m) = mirror_of(*x, 0.5, vec![(None, (None, None), vec![(Event::NormalSent, vec![Trans(0, 1.0)])])]);
        v.push(Candidate { desc: format!("max_padding_frac {x:e}"), mirror: mm, machine: Some(m) });
        let (mm, m) = mirror_of(0.5, *x, vec![(None, (None, None), vec![(Event::NormalSent, vec![Trans(0, 1.0)])])]);
        v.push(Candidate { desc: format!("max_blocking_frac {x:e}"), mirror: mm, machine: Some(m) });
    }
    for p in specials32() {
        for ev in [Event::NormalSent, Event::Signal, Event::CounterZero] {
            let (mm, m) = mirror_of(0.0, 0.0, vec![(None, (None, None), vec![(ev, vec![Trans(0, p)])])]);
            v.push(Candidate { desc: format!("single transition probability {p:e} on {ev:?}"), mirror: mm, machine: Some(m) });
            let (mm, m) = mirror_of(0.0, 0.0, vec![(None, (None, None), vec![(ev, vec![Trans(0, 0.5), Trans(STATE_END, p)])])]);
            v.push(Candidate { desc: format!("second transition probability {p:e} on {ev:?}"), mirror: mm, machine: Some(m) });
            let (mm, m) = mirror_of(0.0, 0.0, vec![(None, (None, None), vec![(ev, vec![Trans(0, p), Trans(STATE_SIGNAL, 0.75)])])]);
            v.push(Candidate { desc: format!("first transition probability {p:e} + 0.75 on {ev:?}"), mirror: mm, machine: Some(m) });
        }
    }
    // structural shapes
    for t in [0usize, 1, 2, 7, u32::MAX as usize, STATE_SIGNAL, STATE_SIGNAL - 1, usize::MAX, (u32::MAX as usize) + 1] {
        let (mm, m) = mirror_of(0.0, 0.0, vec![(None, (None, None), vec![(Event::TunnelRecv, vec![Trans(t, 1.0)])])]);
        v.push(Candidate { desc: format!("target {t} in a one-state machine"), mirror: mm, machine: Some(m) });
    }
    for dup in [0usize, STATE_END, STATE_SIGNAL] {
        for ev in [Event::TunnelRecv, Event::LimitReached] {
            let (mm, m) = mirror_of(0.0, 0.0, vec![(None, (None, None), vec![(ev, vec![Trans(dup, 0.5), Trans(dup, 0.5)])])]);
            v.push(Candidate { desc: format!("duplicate target {dup} on {ev:?}"), mirror: mm, machine: Some(m) });
            let (mm, m) = mirror_of(0.0, 0.0, vec![(None, (None, None), vec![(ev, vec![Trans(dup, 0.25), Trans(0, 0.25), Trans(dup, 0.25)])])]);
            v.push(Candidate { desc: format!("duplicate target {dup} around another on {ev:?}"), mirror: mm, machine: Some(m) });
        }
    }
    let (mm, m) = mirror_of(0.0, 0.0, vec![(None, (None, None), vec![(Event::TunnelRecv, vec![Trans(0, 0.5), Trans(STATE_END, 0.5), Trans(STATE_SIGNAL, f32::EPSILON)])])]);
    v.push(Candidate { desc: "sum one ulp above 1".into(), mirror: mm, machine: Some(m) });
    let (mm, m) = mirror_of(0.0, 0.0, vec![]);
    v.push(Candidate { desc: "no states".into(), mirror: mm, machine: Some(m) });
    // shapes only bytes can express: present-but-empty transition vectors
    let (mut mm, _) = mirror_of(0.0, 0.0, vec![(None, (None, None), vec![(Event::TunnelRecv, vec![Trans(0, 1.0)])])]);
    mm.states[0].transitions[3] = Some(vec![]);
    v.push(Candidate { desc: "Some(empty vector) (bytes only)".into(), mirror: mm, machine: None });
    v
}

/// Encodings only bytes can express: a present-but-empty transition vector in slot `slot` of the first
/// state of a small machine (State::new never builds this).
pub fn empty_vector_string(slot: usize, two_states: bool) -> Option<String> {
    let plain = (None, (None, None), vec![(Event::NormalSent, vec![Trans(0, 1.0)])]);
    let states = if two_states { vec![plain.clone(), plain] } else { vec![plain] };
    let (mut mm, _) = mirror_of(0.0, 0.0, states);
    mm.states[0].transitions[slot % 13] = Some(vec![]);
    mirror_string(&mm)
}

#[derive(Debug, Clone, Copy, PartialEq, Eq)]
enum Judgement {
    Accept,
    Reject,
    NotApplicable,
}

fn j(b: bool) -> Judgement {
    if b {
        Judgement::Accept
    } else {
        Judgement::Reject
    }
}

fn judge(c: &Candidate, out: &mut Out) -> Result<(), (String, String)> {
    let wf_m = wf_mirror(&c.mirror);
    let mut paths: Vec<(&'static str, Judgement)> = vec![];
    // path 1/2: constructors and validate (when expressible)
    if let Some(m) = &c.machine {
        let wf = wf_machine(m);
        if wf.is_ok() != wf_m.is_ok() {
            return Err(("C12/harness-predicates-disagree".into(), format!("{}: {wf:?} vs {wf_m:?}", c.desc)));
        }
        let v = m.validate().is_ok();
        paths.push(("Machine::validate", j(v)));
        let n = Machine::new(m.allowed_padding_packets, m.max_padding_frac, m.allowed_blocked_microsec, m.max_blocking_frac, m.states.clone()).is_ok();
        paths.push(("Machine::new", j(n)));
        // alone and in every position among valid companions: a framework is accepted exactly when all
        // of its machines are
        let good = {
            let mut s0 = State::new(enum_map! { Event::NormalSent => vec![Trans(0, 1.0)], _ => vec![] });
            s0.action = Some(Action::Cancel { timer: Timer::All });
            Machine::new(1, 0.5, 1, 0.5, vec![s0]).unwrap()
        };
        let line_ups: [(&'static str, Vec<Machine>); 5] = [
            ("Framework::new", vec![m.clone()]),
            ("Framework::new([m, valid])", vec![m.clone(), good.clone()]),
            ("Framework::new([valid, m])", vec![good.clone(), m.clone()]),
            ("Framework::new([valid, m, valid])", vec![good.clone(), m.clone(), good.clone()]),
            ("Framework::new([m, m, valid])", vec![m.clone(), m.clone(), good.clone()]),
        ];
        for (name, ms) in line_ups {
            let f = Framework::new(&ms[..], 0.5, 0.5, VClock(0), ScriptRng::fair(1)).is_ok();
            paths.push((name, j(f)));
        }
        // the object's own serialization
        let s = m.serialize();
        let p = Machine::from_str(&s).is_ok();
        paths.push(("Machine::from_str(serialize)", j(p)));
    }
    // path 3: the byte encoding of the mirror
    match mirror_string(&c.mirror) {
        Some(s) => match Machine::from_str(&s) {
            Ok(parsed) => {
                paths.push(("Machine::from_str(bytes)", Judgement::Accept));
                // what came out must be well-formed and runnable
                if let Err(e) = wf_machine(&parsed) {
                    return Err(("C12/accepted-not-wf".into(), format!("{}: from_str accepted a machine that is not well-formed: {e}", c.desc)));
                }
                let ms = [parsed];
                if let Err(e) = Framework::new(&ms[..], 0.0, 1.0, VClock(0), ScriptRng::fair(1)) {
                    return Err(("C12/framework-rejects-accepted-machine".into(), format!("{}: {e}", c.desc)));
                }
            }
            Err(_) => paths.push(("Machine::from_str(bytes)", Judgement::Reject)),
        },
        None => paths.push(("Machine::from_str(bytes)", Judgement::NotApplicable)),
    }
    for (name, jd) in &paths {
        if *jd == Judgement::Accept && wf_m.is_err() {
            return Err((
                "C12/accepted-not-wf".into(),
                format!("{}: accepted by {name} although not well-formed: {}", c.desc, wf_m.clone().unwrap_err()),
            ));
        }
    }
    let acc: Vec<_> = paths.iter().filter(|p| p.1 == Judgement::Accept).map(|p| p.0).collect();
    let rej: Vec<_> = paths.iter().filter(|p| p.1 == Judgement::Reject).map(|p| p.0).collect();
    if !acc.is_empty() && !rej.is_empty() {
        return Err(("C12/paths-disagree".into(), format!("{}: accepted by {acc:?}, rejected by {rej:?}", c.desc)));
    }
    if acc.is_empty() {
        out.bump("objects_rejected_by_all_paths");
        if wf_m.is_ok() {
            out.bump("wellformed_objects_rejected_(allowed:_validation_may_be_stricter)");
        }
    } else {
        out.bump("objects_accepted_by_all_paths");
    }
    Ok(())
}

fn rand_special(r: &mut Xo) -> f64 {
    let s = specials64();
    if r.chance(2, 3) {
        *r.pick(&s)
    } else {
        (r.unit_f64() - 0.3) * *r.pick(&[1.0, 2.0, 1.0e9, 1.0e42, 1.0e-9])
    }
}

fn random_candidate(r: &mut Xo) -> Candidate {
    let n = r.range(1, 3) as usize;
    let mut states = vec![];
    for _ in 0..n {
        let slot = r.below(27) as usize;
        let x = if r.chance(1, 2) { rand_special(r) } else { 1.0 + r.unit_f64() };
        let d = if r.chance(1, 3) {
            let y = if r.chance(2, 3) { rand_special(r) } else { 1.0 + r.unit_f64() };
            dist_with_pair(r.below(PAIR_SLOTS as u64) as usize, x, y)
        } else {
            dist_with(slot, x)
        };
        let (a, c) = place_dist(r.below(PLACES as u64) as usize, d);
        let mut tv = vec![];
        if r.chance(1, 8) {
            // probabilities that add up to 1 give or take a few units in the last place, in an arbitrary
            // order of targets: on which side of 1 the sum falls depends on how it is accumulated
            let k = r.range(3, 5) as usize;
            let mut ps: Vec<f32> = (0..k - 1).map(|_| ((r.range(1, 99) as f32) / 100.0) / (k as f32 - 1.0) * *r.pick(&[1.0f32, 0.97, 0.9])).collect();
            let rest = 1.0f64 - ps.iter().map(|p| *p as f64).sum::<f64>();
            let last = rest as f32;
            let nudge = *r.pick(&[-1i32, 0, 0, 1, 1, 2]);
            ps.push(f32::from_bits((last.to_bits() as i64 + nudge as i64) as u32));
            let mut targets: Vec<usize> = vec![0, 1, 2, STATE_END, STATE_SIGNAL];
            for i in (1..targets.len()).rev() {
                let j = r.below(i as u64 + 1) as usize;
                targets.swap(i, j);
            }
            for i in (1..ps.len()).rev() {
                let j = r.below(i as u64 + 1) as usize;
                ps.swap(i, j);
            }
            let v: Vec<Trans> = ps.iter().zip(targets.iter()).map(|(p, t)| Trans(*t, *p)).collect();
            tv.push((*r.pick(&ALL_EVENTS), v));
        }
        for _ in 0..r.range(0, 3) {
            let e = *r.pick(&ALL_EVENTS);
            let k = r.range(1, 3);
            let v: Vec<Trans> = (0..k)
                .map(|_| {
                    let t = if r.chance(1, 8) {
                        // beyond the 32-bit range the pseudo-states live in: neither a state nor a pseudo-state
                        *r.pick(&[STATE_END + 1, 1usize << 32, (1usize << 32) + 1, (1usize << 32) + STATE_SIGNAL, usize::MAX, usize::MAX - 1, usize::MAX / 2, 1usize << 63])
                    } else {
                        *r.pick(&[0usize, 1, 2, 3, STATE_END, STATE_SIGNAL, STATE_SIGNAL - 1])
                    };
                    let p = if r.chance(1, 3) { *r.pick(&specials32()) } else { *r.pick(&[1.0f32, 0.5, 0.25, 0.75, 0.3]) };
                    Trans(t, p)
                })
                .collect();
            tv.push((e, v));
        }
        states.push((a, c, tv));
    }
    let pad = if r.chance(1, 3) { rand_special(r) } else { r.unit_f64() };
    let blk = if r.chance(1, 3) { rand_special(r) } else { r.unit_f64() };
    let (mut mm, m) = mirror_of(pad, blk, states);
    let bytes_only = r.chance(1, 6);
    if bytes_only {
        let si = r.below(mm.states.len() as u64) as usize;
        mm.states[si].transitions[r.below(13) as usize] = Some(vec![]);
    }
    Candidate { desc: "random combination".into(), mirror: mm, machine: if bytes_only { None } else { Some(m) } }
}

impl Prop for C12 {
    fn cases(&self, tier: Tier) -> u64 {
        match tier {
            Tier::Quick => 400_000,
            Tier::Thorough => 20_000_000,
        }
    }

    fn run_case(&mut self, cx: &CaseCx, out: &mut Out) {
        // the finite matrix is run completely by shard 0, once
        if cx.shard == 0 && !self.matrix_done {
            self.matrix_done = true;
            let m = matrix();
            out.add("matrix_objects", m.len() as u64);
            for (i, c) in m.iter().enumerate() {
                if i % 256 == 0 {
                    crate::hb_tag(&format!("matrix object {i}"));
                }
                out.evaluations += 1;
                if let Err((sig, msg)) = judge(c, out) {
                    out.violation(sig, msg, json!({"object": format!("{:?}", c.mirror), "encoding": mirror_string(&c.mirror)}));
                } else {
                    out.nontrivial(hash_of(&c.desc));
                }
            }
            crate::hb_tag("");
            out.extra.insert("matrix_exhaustive".into(), json!(true));
            out.extra.insert(
                "matrix".into(),
                json!({"numeric_slots": 29 + 3, "parameter_pair_slots": PAIR_SLOTS, "pair_placements": 3, "special_values_f64": specials64().len(), "special_values_f32": specials32().len(),
                       "placements": PLACES, "objects": m.len(), "paths": ["Machine::validate", "Machine::new", "Framework::new (alone and in 4 line-ups with valid companions)", "Machine::from_str(serialize)", "Machine::from_str(bytes)"]}),
            );
        }
        let mut r = xo(cx.seed);
        let c = random_candidate(&mut r);
        out.evaluations += 1;
        match judge(&c, out) {
            Err((sig, msg)) => out.violation(sig, msg, json!({"object": format!("{:?}", c.mirror), "encoding": mirror_string(&c.mirror)})),
            Ok(()) => {
                out.nontrivial(hash_of(&format!("{:?}", c.mirror)));
                // the same objects again in another machine: the states of an accepted machine, reused in a
                // machine with fewer states (targets may now point past the end), must be judged afresh
                if let Some(m) = &c.machine {
                    if m.states.len() >= 2 && m.validate().is_ok() {
                        let keep = r.range(1, m.states.len() as u64 - 1) as usize;
                        let mut small = m.clone();
                        small.states.truncate(keep);
                        let mut mm = c.mirror.clone();
                        mm.states.truncate(keep);
                        let c2 = Candidate { desc: format!("states of an accepted machine reused in a machine of {keep} states"), mirror: mm, machine: Some(small) };
                        out.evaluations += 1;
                        out.bump("accepted_machines_truncated_and_judged_again");
                        if let Err((sig, msg)) = judge(&c2, out) {
                            out.violation(sig, msg, json!({"object": format!("{:?}", c2.mirror), "encoding": mirror_string(&c2.mirror)}));
                        }
                    }
                }
                out.sample(|| json!({"object": format!("{:?}", c.mirror), "well_formed": wf_mirror(&c.mirror).is_ok()}));
            }
        }
    }
}
