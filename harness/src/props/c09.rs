//! C09 — signals reach every other machine exactly once and never the lone signaller. Per-call
//! monitor over the step log (hook H1).

use std::collections::BTreeSet;

use maybenot::constants::{STATE_END, STATE_SIGNAL};
use maybenot::event::Event;
use maybenot::verif::Step;
use maybenot::Machine;
use serde_json::json;

use crate::gen::{gen_machine, HCfg, MCfg};
use crate::props::fwmon::{run_scenario, witness, CallRec, Monitor, Scenario, Verdict};
use crate::util::{hash_of, xo, Pick, ScriptRng, VClock, Xo};
use crate::{CaseCx, Out, Prop, Tier};

#[derive(Default)]
pub struct C09 {}

struct Obs<'a> {
    machines: &'a [Machine],
    signalling_calls: u64,
    /// the signal target that may legitimately be pending between calls, derived by the monitor itself
    /// from the previous call's log: only a lone signaller that signalled again when it received the
    /// answer (second round) leaves a signal for the next call
    carry: Option<Option<usize>>,
}

fn v(sig: &str, msg: String) -> Verdict {
    Err((format!("C09/{sig}"), msg))
}

impl<'a> Monitor for Obs<'a> {
    fn call(&mut self, rec: &CallRec<'_>, out: &mut Out) -> Verdict {
        let n = self.machines.len();
        // who signalled during this call, and how often, split into before / during the round
        let mut signals = vec![0usize; n];
        let mut signals_in_round = vec![0usize; n];
        // deliveries of Signal: to live machines and attempts on ended machines
        let mut recv_live = vec![0usize; n];
        let mut recv_ended = vec![0usize; n];
        let mut in_round = false;
        // signals raised by a machine after it received its own Signal in this call (only the lone
        // signaller's answer to the second round can do that last)
        let mut signalled_after_own_delivery = vec![false; n];
        let mut got_delivery = vec![false; n];
        let mut last_delivery_to: Option<usize> = None;
        for s in rec.log {
            match s {
                Step::SignalRound => in_round = true,
                Step::Sampled { machine, next: Some(t) } if *t == STATE_SIGNAL => {
                    if in_round {
                        signals_in_round[*machine] += 1;
                        if got_delivery[*machine] {
                            signalled_after_own_delivery[*machine] = true;
                        }
                    } else {
                        signals[*machine] += 1;
                    }
                }
                Step::Deliver {
                    machine,
                    event: Event::Signal,
                    from_state,
                    ..
                } => {
                    if !in_round {
                        return v("signal-outside-round", format!("Signal delivered to machine {machine} before the end of the call"));
                    }
                    got_delivery[*machine] = true;
                    last_delivery_to = Some(*machine);
                    if *from_state == STATE_END {
                        recv_ended[*machine] += 1;
                    } else {
                        recv_live[*machine] += 1;
                    }
                }
                _ => {}
            }
        }
        // a target carried over from the previous call counts as signalled by its source; what may be
        // carried is derived from the previous call's log, not read from the implementation
        if rec.before.signal_pending != self.carry {
            return v(
                "signal-pending-between-calls",
                format!("before this call the framework holds the pending signal target {:?}; by the rules it is {:?}", rec.before.signal_pending, self.carry),
            );
        }
        let carried = self.carry;
        self.carry = None;
        let mut sources: BTreeSet<usize> = (0..n).filter(|m| signals[*m] > 0).collect();
        let mut carried_all = false;
        match carried {
            Some(Some(x)) => {
                sources.insert(x);
                out.bump("calls_with_carried_over_signal");
            }
            Some(None) => {
                carried_all = true;
                out.bump("calls_with_carried_over_signal");
            }
            None => {}
        }
        for m in 0..n {
            if recv_live[m] + recv_ended[m] > 1 {
                return v("more-than-one-signal", format!("machine {m} received {} Signal events in one call", recv_live[m] + recv_ended[m]));
            }
        }
        if sources.is_empty() && !carried_all {
            if in_round {
                return v("signal-without-signaller", "a signal round ran although no machine signalled and nothing was pending".into());
            }
            if rec.after.signal_pending.is_some() {
                return v("signal-pending-between-calls", format!("nobody signalled in this call, yet the framework holds the pending target {:?} after it", rec.after.signal_pending));
            }
            return Ok(());
        }
        if !in_round {
            return v("signal-not-delivered", format!("machines {sources:?} signalled but no signal round ran before the call returned"));
        }
        self.signalling_calls += 1;
        let responders: Vec<usize> = (0..n).filter(|m| signals_in_round[*m] > 0).collect();
        if sources.len() == 1 && !carried_all {
            let x = *sources.iter().next().unwrap();
            out.bump("calls_with_one_signaller");
            if signals[x] >= 2 {
                out.bump("calls_with_lone_signaller_signalling_2+_times");
            }
            for m in 0..n {
                if m == x {
                    continue;
                }
                if recv_live[m] + recv_ended[m] != 1 {
                    return v(
                        "signal-missed",
                        format!("machine {x} signalled; machine {m} received {} Signal events (expected exactly one attempt)", recv_live[m] + recv_ended[m]),
                    );
                }
            }
            let answered = responders.iter().any(|m| *m != x);
            let expect_x = if answered { 1 } else { 0 };
            if answered {
                out.bump("calls_with_a_response_in_the_round");
            }
            if recv_live[x] + recv_ended[x] != expect_x {
                let sig = if expect_x == 0 { "lone-signaller-got-signal" } else { "response-not-delivered-to-signaller" };
                return v(
                    sig,
                    format!(
                        "machine {x} was the only signaller ({} times) and {}; it received {} Signal events, expected {expect_x}",
                        signals[x],
                        if answered { "another machine answered by signalling" } else { "nobody answered" },
                        recv_live[x] + recv_ended[x]
                    ),
                );
            }
        } else {
            out.bump("calls_with_2+_signallers");
            for m in 0..n {
                if recv_live[m] + recv_ended[m] != 1 {
                    return v(
                        "signal-missed",
                        format!("machines {sources:?} signalled; machine {m} received {} Signal events (expected exactly one attempt)", recv_live[m] + recv_ended[m]),
                    );
                }
            }
        }
        // what may be left pending for the next call
        if sources.len() == 1 && !carried_all {
            let x = *sources.iter().next().unwrap();
            let answered = responders.iter().any(|m| *m != x);
            if answered && last_delivery_to == Some(x) && signalled_after_own_delivery[x] {
                self.carry = Some(Some(x));
                out.bump("calls_leaving_a_signal_for_the_next_call");
            }
        }
        if rec.after.signal_pending != self.carry {
            return v(
                "signal-pending-between-calls",
                format!("after this call the framework holds the pending signal target {:?}; by the rules it is {:?}", rec.after.signal_pending, self.carry),
            );
        }
        if recv_ended.iter().any(|c| *c > 0) {
            out.bump("signalling_calls_with_ended_machines");
        }
        if rec.before.machines.iter().any(|m| m.current_state == STATE_END) {
            out.bump("signalling_calls_with_machine_ended_before_call");
        }
        // evidence: what triggered the signalling transitions
        for (i, s) in rec.log.iter().enumerate() {
            if let Step::Sampled { next: Some(t), .. } = s {
                if *t == STATE_SIGNAL {
                    if let Some(Step::Deliver { event, .. }) = rec.log.get(i.wrapping_sub(1)) {
                        out.bump(match event {
                            Event::LimitReached => "signals_on_limit_reached",
                            Event::CounterZero => "signals_on_counter_zero",
                            Event::Signal => "signals_on_signal",
                            _ => "signals_on_external_event",
                        });
                    }
                }
            }
        }
        Ok(())
    }
}

fn signal_cfg(r: &mut Xo) -> MCfg {
    let mut c = MCfg::wild();
    c.action16 = 10;
    c.limit16 = 8;
    c.density16 = *r.pick(&[6, 9, 12]);
    c.allow_end = r.chance(1, 3);
    c.allow_signal = true;
    c.budgets = r.chance(1, 4);
    c.max_states = 4;
    c
}

/// make signalling frequent: add SIGNAL targets to many transition vectors
fn boost_signals(r: &mut Xo, m: &Machine) -> Machine {
    use enum_map::enum_map;
    use maybenot::state::{State, Trans};
    let n = m.states.len();
    let states: Vec<State> = m
        .states
        .iter()
        .map(|s| {
            let mut t = s.get_transitions();
            for e in crate::gen::ALL_EVENTS {
                if r.chance(3, 16) {
                    let p = *r.pick(&[1.0f32, 1.0, 0.5, 0.25]);
                    if p == 1.0 || t[e].is_empty() {
                        t[e] = vec![Trans(STATE_SIGNAL, p)];
                    } else if t[e].len() == 1 && t[e][0].0 != STATE_SIGNAL && t[e][0].1 <= 0.5 {
                        t[e].push(Trans(STATE_SIGNAL, 0.5));
                    }
                } else if r.chance(1, 16) {
                    t[e] = vec![Trans(r.below(n as u64) as usize, 0.5), Trans(STATE_SIGNAL, 0.5)];
                }
            }
            let _ = enum_map! { Event::Signal => 0, _ => 0 };
            let mut ns = State::new(t);
            ns.action = s.action;
            ns.counter = s.counter;
            ns
        })
        .collect();
    Machine::new(m.allowed_padding_packets, m.max_padding_frac, m.allowed_blocked_microsec, m.max_blocking_frac, states).unwrap_or_else(|_| m.clone())
}

impl Prop for C09 {
    fn cases(&self, tier: Tier) -> u64 {
        match tier {
            Tier::Quick => 300_000,
            Tier::Thorough => 6_000_000,
        }
    }

    fn run_case(&mut self, cx: &CaseCx, out: &mut Out) {
        let mut r = xo(cx.seed);
        let n = r.range(1, 5) as usize;
        let machines: Vec<Machine> = (0..n)
            .map(|_| {
                let c = signal_cfg(&mut r);
                let m = gen_machine(&mut r, &c);
                if r.chance(3, 4) {
                    boost_signals(&mut r, &m)
                } else {
                    m
                }
            })
            .collect();
        let wide = crate::gen::wide_width(&mut r, cx.case);
        let huge = wide.is_some_and(|w| w.0 > 65_535);
        let layout = wide.map_or(0, |w| w.1);
        let width = wide.map(|w| w.0);
        let machines = match width {
            // beyond 2^16 machines: small ones, or the line-up does not fit the worker's memory
            Some(w) if huge => {
                let small: Vec<Machine> = machines.iter().filter(|m| m.states.len() <= 3).take(2).cloned().collect();
                crate::gen::widen(if small.is_empty() { machines.into_iter().take(1).collect() } else { small }, w, layout)
            }
            Some(w) => crate::gen::widen(machines, w, layout),
            None => machines,
        };
        if machines.len() > 32 {
            out.bump(if huge { "cases_with_more_than_65536_machines" } else { "cases_with_more_than_32_machines" });
        }
        let pf = *r.pick(&[0.0, 0.0, 0.5]);
        let bf = *r.pick(&[0.0, 0.0, 0.5]);
        let rng_seed = rand_core::RngCore::next_u64(&mut r);
        let start = VClock(1 << 40);
        let h = HCfg {
            calls: if huge { r.range(5, 30) as usize } else { r.range(10, 150) as usize },
            max_batch: *r.pick(&[1, 2, 2, 4, 8]),
            empty: true,
            backwards: false,
            huge_steps: false,
            unknown_ids: true,
        };
        let mut mon = Obs {
            machines: &machines,
            signalling_calls: 0,
            carry: None,
        };
        out.evaluations += 1;
        let sc = Scenario {
            machines: &machines,
            pf,
            bf,
            start,
            rng: ScriptRng::fair(rng_seed),
            h,
            max_time: u64::MAX,
            extra16: 0,
            script: None,
        };
        match run_scenario(sc, &mut r, &mut mon, out, |_, _| None) {
            Ok(s) => {
                out.add("calls", s.calls);
                out.add("signalling_calls", mon.signalling_calls);
                if mon.signalling_calls > 0 {
                    out.nontrivial(hash_of(&(machines.iter().take(8).map(|m| m.serialize()).collect::<Vec<_>>(), machines.len(), s.hist_hash)));
                }
                if machines.len() <= 8 {
                out.sample(|| {
                    json!({"machines": crate::drive::machines_json(&machines), "history_head": s.trace.iter().take(8).collect::<Vec<_>>(),
                           "signalling_calls": mon.signalling_calls})
                });
                }
            }
            Err((sig, msg, trace)) => out.violation(sig, msg, witness(&machines, pf, bf, rng_seed, start, &trace)),
        }
    }
}
