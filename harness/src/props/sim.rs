//! Shared machinery for the simulator properties (C14–C19): trace / machine / argument
//! generators, a runner that records the returned event trace and the hook's action log, and the
//! offline checkers over those two records.

use std::panic::{catch_unwind, AssertUnwindSafe};
use std::time::{Duration, Instant};

use maybenot::event::TriggerEvent;
use maybenot::{Machine, TriggerAction};
use maybenot_simulator::network::Network;
use maybenot_simulator::verif::{take_action_log, take_fire_log, Fired};
use maybenot_simulator::{parse_trace, sim, sim_advanced, SimEvent, SimulatorArgs};
use serde_json::{json, Value};

use crate::gen::{gen_frac, gen_machine, MCfg};
use crate::util::{Pick, Xo};
use crate::{panic_sig, take_panic};

#[derive(Clone, Debug)]
pub struct SimCase {
    /// (time in ns, sent by the client?)
    pub lines: Vec<(u64, bool)>,
    pub delay_ns: u64,
    pub pps: Option<usize>,
    pub client: Vec<Machine>,
    pub server: Vec<Machine>,
    pub max_iter: usize,
    pub max_trace_length: usize,
    pub cont: bool,
    pub only_client: bool,
    pub only_network: bool,
    pub fracs: [f64; 4],
    pub seed: u64,
    pub use_sim_fn: bool,
    /// 0 = no integration; otherwise both sides get an integration whose only non-zero delay is this
    /// constant trigger delay (used by the internal-timer check only: timers ignore the trigger delay)
    pub trigger_delay_us: u64,
    /// layered simulation (C16 only): the tunnel-sent events of a first run, cloned and relabelled as
    /// normal traffic, are the input of the run that is checked
    pub layered: bool,
}

impl SimCase {
    pub fn trace_string(&self) -> String {
        // the documented line format is "time,direction[,size]"; "sn"/"rn" are accepted aliases. The
        // variant is a function of the trace so that a case always renders the same way.
        let variant = self.lines.len() % 4;
        let mut s = String::new();
        for (t, sent) in &self.lines {
            let d = match (variant, *sent) {
                (1, true) => "sn",
                (1, false) => "rn",
                (_, true) => "s",
                (_, false) => "r",
            };
            match variant {
                2 => s += &format!("{},{},{}\n", t, d, 100 + t % 1400),
                3 => s += &format!("{} ,{}\n", t, d),
                _ => s += &format!("{},{}\n", t, d),
            }
            // lines for padding packets ("sp" / "rp") are valid input and carry no packet of the base trace:
            // in traces of even length every third line is followed by one
            if self.lines.len() % 2 == 0 && (t / 7) % 3 == 0 {
                s += &format!("{},{}\n", t, if (t / 21) % 2 == 0 { "sp" } else { "rp" });
            }
        }
        s
    }
    pub fn network(&self) -> Network {
        // the fields of Network are public: half of the cases (decided by the seed) set the limit through
        // the field instead of the constructor
        if self.seed % 2 == 0 {
            let mut n = Network::new(Duration::from_nanos(self.delay_ns), None);
            n.pps = self.pps;
            n
        } else {
            Network::new(Duration::from_nanos(self.delay_ns), self.pps)
        }
    }
    pub fn args(&self) -> SimulatorArgs {
        let mut a = SimulatorArgs::new(self.network(), self.max_trace_length, self.only_network);
        a.max_sim_iterations = self.max_iter;
        a.continue_after_all_normal_packets_processed = self.cont;
        a.only_client_events = self.only_client;
        a.max_padding_frac_client = self.fracs[0];
        a.max_blocking_frac_client = self.fracs[1];
        a.max_padding_frac_server = self.fracs[2];
        a.max_blocking_frac_server = self.fracs[3];
        a.insecure_rng_seed = Some(self.seed);
        if self.trigger_delay_us > 0 {
            use maybenot_simulator::integration::{BinDist, Integration};
            let zero = || BinDist::new(r#"{"(0.0, 0.0)": 1.0}"#).unwrap();
            let ms = self.trigger_delay_us as f64 / 1000.0;
            let integ = Integration {
                action_delay: zero(),
                reporting_delay: zero(),
                trigger_delay: BinDist::new(&format!(r#"{{"({ms:?}, {ms:?})": 1.0}}"#)).unwrap(),
            };
            a.client_integration = Some(integ.clone());
            a.server_integration = Some(integ);
        }
        a
    }
    /// offset (ns, relative to the earliest base event) at which each trace line is injected:
    /// client sends at t, server sends at t - delay
    pub fn base_offsets(&self) -> (Vec<i128>, i128) {
        let offs: Vec<i128> = self
            .lines
            .iter()
            .map(|(t, sent)| if *sent { *t as i128 } else { *t as i128 - self.delay_ns as i128 })
            .collect();
        let min = *offs.iter().min().unwrap();
        (offs, min)
    }
    pub fn to_json(&self) -> Value {
        json!({
            "trace": self.trace_string(),
            "delay_ns": self.delay_ns,
            "pps": self.pps,
            "client_machines": self.client.iter().map(|m| m.serialize()).collect::<Vec<_>>(),
            "server_machines": self.server.iter().map(|m| m.serialize()).collect::<Vec<_>>(),
            "max_sim_iterations": self.max_iter,
            "max_trace_length": self.max_trace_length,
            "continue_after_all_normal_packets_processed": self.cont,
            "only_client_events": self.only_client,
            "only_network_activity": self.only_network,
            "fractions_client_pad_block_server_pad_block": self.fracs,
            "insecure_rng_seed": self.seed,
            "entry_point": if self.use_sim_fn { "sim" } else { "sim_advanced" },
            "integration_trigger_delay_us": self.trigger_delay_us,
            "layered": self.layered,
        })
    }
}

pub fn gen_trace(r: &mut Xo, max_lines: usize) -> Vec<(u64, bool)> {
    if max_lines >= 12 && r.chance(1, 6) {
        // steady streams: evenly paced traffic (no bursts), one or both directions, so that the rate
        // limit derived from the trace is tight
        let n = r.range(12, max_lines.max(13) as u64) as usize;
        let gap = *r.pick(&[40u64, 55, 60, 75, 90, 99, 100, 101, 120, 250]) * 1_000_000;
        let jitter = *r.pick(&[0u64, 1, 1_000, 1_000_000]);
        let mode = r.below(3);
        let mut t = r.range(0, 3) * 1_000_000;
        let mut v = vec![];
        for i in 0..n {
            let dir = match mode {
                0 => i % 2 == 0,
                1 => r.chance(1, 2),
                _ => true,
            };
            v.push((t, dir));
            t += gap + r.below(jitter + 1);
        }
        return v;
    }
    if max_lines >= 12 && r.chance(1, 8) {
        // isolated bursts: k packets with one and the same timestamp in one direction, the bursts more
        // than 100 ms apart (the window of the rate limit derived from the trace), possibly a single burst
        let mut v = vec![];
        let mut t = r.range(0, 3) * 1_000_000;
        let same_dir = r.chance(2, 3);
        let mut dir = r.chance(1, 2);
        while v.len() < max_lines {
            let k = (*r.pick(&[2u64, 3, 4, 4, 5, 8, 12, 12, 20, 40])).min((max_lines - v.len()) as u64);
            if !same_dir {
                dir = r.chance(1, 2);
            }
            for _ in 0..k {
                v.push((t, dir));
            }
            t += *r.pick(&[101u64, 120, 150, 150, 200, 334, 500, 1000]) * 1_000_000;
            if r.chance(1, 6) {
                break;
            }
        }
        return v;
    }
    let n = r.range(1, max_lines as u64) as usize;
    let mut t: u64 = if r.chance(1, 2) { 0 } else { r.range(0, 5_000_000) };
    let mut v = vec![];
    let mut dir = r.chance(1, 2);
    for _ in 0..n {
        if !r.chance(2, 3) {
            dir = r.chance(1, 2);
        }
        v.push((t, dir));
        t += match r.below(12) {
            0..=2 => 0,
            3 => 1,
            4 => r.range(1, 999),
            5 | 6 => r.range(1, 50) * 1_000,
            7 | 8 => r.range(1, 20) * 1_000_000,
            9 => r.range(1, 5) * 100_000_000,
            10 => 1_000_000_000,
            _ => r.range(1, 3_000) * 1_000,
        };
    }
    v
}

pub fn gen_delay(r: &mut Xo) -> u64 {
    *r.pick(&[0, 0, 1_000, 1_000_000, 10_000_000, 10_000_000, 100_000_000, 1_000_000_000, 3_333])
}

pub fn sim_mcfg(r: &mut Xo) -> MCfg {
    let mut c = MCfg::wild();
    c.small_times = true;
    c.max_states = 4;
    c.density16 = *r.pick(&[4, 7, 10]);
    c.action16 = 13;
    c.limit16 = *r.pick(&[4, 10]);
    c.allow_end = r.chance(1, 4);
    c.budgets = r.chance(1, 3);
    c
}

pub fn gen_side(r: &mut Xo, lo: usize, hi: usize, tune: &dyn Fn(&mut Xo, &mut MCfg)) -> Vec<Machine> {
    let n = r.range(lo as u64, hi as u64) as usize;
    (0..n)
        .map(|_| {
            let mut c = sim_mcfg(r);
            tune(r, &mut c);
            gen_machine(r, &c)
        })
        .collect()
}

pub fn gen_case(r: &mut Xo, max_lines: usize, tune: &dyn Fn(&mut Xo, &mut MCfg)) -> SimCase {
    let mut lines = gen_trace(r, max_lines);
    // slow world (1 case in 8): the same shapes at a time scale 2^20 or 2^23 times coarser - trace gaps of
    // hours to years, timeouts and durations of minutes up to the 24 h cap, i.e. beyond 2^32 microseconds
    let mult: u64 = if r.chance(1, 8) { *r.pick(&[1u64 << 20, 1 << 23]) } else { 1 };
    for l in lines.iter_mut() {
        l.0 *= mult;
    }
    let (client, server) = crate::gen::with_time_mult(mult as f64, || match r.below(4) {
        0 => (gen_side(r, 1, 3, tune), vec![]),
        1 => (vec![], gen_side(r, 1, 3, tune)),
        _ => (gen_side(r, 1, 3, tune), gen_side(r, 1, 3, tune)),
    });
    SimCase {
        lines,
        delay_ns: gen_delay(r),
        pps: if r.chance(1, 5) { Some(*r.pick(&[1usize, 2, 10, 1000, 100_000])) } else { None },
        client,
        server,
        max_iter: *r.pick(&[300, 1000, 3000]),
        max_trace_length: 0,
        cont: r.chance(1, 2),
        only_client: false,
        only_network: false,
        fracs: [gen_frac(r), gen_frac(r), gen_frac(r), gen_frac(r)],
        seed: match r.below(12) {
            0 => *r.pick(&[0, 1, u64::MAX, u64::MAX - 1, 1 << 63, (1 << 63) - 1, u32::MAX as u64]),
            _ => rand_core::RngCore::next_u64(r),
        },
        use_sim_fn: false,
        trigger_delay_us: 0,
        layered: false,
    }
}

/// One event of the returned trace, flattened; time in ns relative to the earliest base event.
#[derive(Clone, Debug, PartialEq, Eq, Hash)]
pub struct Ev {
    pub t: u64,
    pub client: bool,
    pub event: TriggerEvent,
    pub padding: bool,
    pub bypass: bool,
    pub replace: bool,
}

#[derive(Clone, Debug)]
pub struct Act {
    pub event_index: usize,
    pub client: bool,
    pub t: u64,
    pub action: TriggerAction,
}

#[derive(Clone, Debug)]
pub struct Fire {
    /// number of events processed when the simulator fired
    pub events_seen: usize,
    pub client: bool,
    pub t: u64,
    pub fired: Fired,
}

pub struct SimRun {
    pub fires: Vec<Fire>,
    pub events: Vec<Ev>,
    pub raw: Vec<SimEvent>,
    pub actions: Vec<Act>,
    pub base: Instant,
}

pub enum SimOutcome {
    Ok(SimRun),
    Panic { msg: String, loc: String, sig: String },
    /// an event earlier than the first base event (the flattening cannot represent it)
    TimeBeforeStart(String),
}

pub fn flatten(raw: &[SimEvent], base: Instant) -> Result<Vec<Ev>, String> {
    let mut v = Vec::with_capacity(raw.len());
    for e in raw {
        if e.time < base {
            return Err(format!("event {:?} at {:?} before the first trace event", e.event, base - e.time));
        }
        let (bypass, replace) = e.verif_flags();
        v.push(Ev {
            t: (e.time - base).as_nanos() as u64,
            client: e.client,
            event: e.event.clone(),
            padding: e.contains_padding,
            bypass,
            replace,
        });
    }
    Ok(v)
}

thread_local! {
    /// the queue the previous simulation on this thread left behind
    static WORK_QUEUE: std::cell::RefCell<Option<maybenot_simulator::queue::SimQueue>> = const { std::cell::RefCell::new(None) };
}

pub fn run_sim(c: &SimCase) -> SimOutcome {
    let trace = c.trace_string();
    let network = c.network();
    let args = c.args();
    let r = catch_unwind(AssertUnwindSafe(|| {
        let parsed = parse_trace(&trace, network);
        // half of the runs (decided by the trace) refill the queue a previous simulation on this thread
        // has used up, with clone_from, instead of simulating on the freshly parsed one
        let mut sq = if c.lines.len() % 2 == 0 {
            WORK_QUEUE.with(|w| {
                let mut q = w.borrow_mut().take().unwrap_or_else(|| parsed.clone());
                q.clone_from(&parsed);
                q
            })
        } else {
            parsed
        };
        let base = sq.get_first_time().expect("non-empty trace");
        let _ = take_fire_log();
        let _ = take_action_log();
        let raw = if c.use_sim_fn {
            sim(&c.client, &c.server, &mut sq, network.delay, c.max_trace_length, c.only_network)
        } else {
            sim_advanced(&c.client, &c.server, &mut sq, &args)
        };
        let mut fires = take_fire_log();
        let mut log = take_action_log();
        WORK_QUEUE.with(|w| *w.borrow_mut() = Some(sq));
        let (mut base, mut raw) = (base, raw);
        if c.layered {
            // events of the first layer's output reused as input: only their public fields are set anew
            let mut sq2 = maybenot_simulator::queue::SimQueue::new();
            for e in raw.iter().filter(|e| matches!(e.event, maybenot::event::TriggerEvent::TunnelSent)) {
                let mut x = e.clone();
                x.event = maybenot::event::TriggerEvent::NormalSent;
                x.contains_padding = false;
                sq2.push_sim(x);
            }
            if let Some(b2) = sq2.get_first_time() {
                base = b2;
                raw = sim_advanced(&c.client, &c.server, &mut sq2, &args);
                fires = take_fire_log();
                log = take_action_log();
            }
        }
        (base, raw, log, fires)
    }));
    match r {
        Err(_) => {
            let _ = take_fire_log();
            let _ = take_action_log();
            let (msg, loc) = take_panic();
            if crate::is_harness_loc(&loc) {
                std::panic::resume_unwind(Box::new(format!("{msg} at {loc}")));
            }
            let sig = panic_sig(&msg, &loc);
            SimOutcome::Panic { msg, loc, sig }
        }
        Ok((base, raw, log, fires)) => {
            let events = match flatten(&raw, base) {
                Ok(e) => e,
                Err(m) => return SimOutcome::TimeBeforeStart(m),
            };
            let actions = log
                .into_iter()
                .map(|a| Act {
                    event_index: a.event_index,
                    client: a.client,
                    t: if a.time >= base { (a.time - base).as_nanos() as u64 } else { 0 },
                    action: a.action,
                })
                .collect();
            let fires = fires
                .into_iter()
                .map(|f| Fire {
                    events_seen: f.events_seen,
                    client: f.client,
                    t: if f.time >= base { (f.time - base).as_nanos() as u64 } else { 0 },
                    fired: f.fired,
                })
                .collect();
            SimOutcome::Ok(SimRun { fires, events, raw, actions, base })
        }
    }
}

pub fn is_tunnel(e: &TriggerEvent) -> bool {
    matches!(e, TriggerEvent::TunnelSent | TriggerEvent::TunnelRecv)
}

pub fn ev_code(e: &TriggerEvent) -> String {
    match e {
        TriggerEvent::PaddingSent { machine } => format!("sp{}", machine.into_raw()),
        TriggerEvent::BlockingBegin { machine } => format!("bb{}", machine.into_raw()),
        TriggerEvent::TimerBegin { machine } => format!("tb{}", machine.into_raw()),
        TriggerEvent::TimerEnd { machine } => format!("te{}", machine.into_raw()),
        other => format!("{}", other),
    }
}

pub fn fmt_ev(e: &Ev) -> String {
    format!(
        "{}@{}{}{}{}{}",
        ev_code(&e.event),
        if e.client { "c" } else { "s" },
        e.t,
        if e.padding { "P" } else { "" },
        if e.bypass { "b" } else { "" },
        if e.replace { "r" } else { "" }
    )
}

pub fn fmt_window(events: &[Ev], i: usize, before: usize, after: usize) -> Vec<String> {
    let lo = i.saturating_sub(before);
    let hi = (i + after + 1).min(events.len());
    (lo..hi).map(|k| format!("{}{}", if k == i { ">> " } else { "" }, fmt_ev(&events[k]))).collect()
}

// ---------------------------------------------------------------------------------------------
// C14: baseline

/// Checks a run without machines against the input trace. `filters` says which events the output
/// may contain at all.
pub fn check_baseline(c: &SimCase, run: &SimRun) -> Result<(), (String, String)> {
    let (offs, min) = c.base_offsets();
    let d = c.delay_ns as i128;
    let mut exp_cs: Vec<i128> = vec![]; // client TunnelSent
    let mut exp_cr: Vec<i128> = vec![];
    let mut exp_ss: Vec<i128> = vec![];
    let mut exp_sr: Vec<i128> = vec![];
    for ((_, sent), off) in c.lines.iter().zip(offs.iter()) {
        if *sent {
            exp_cs.push(off - min);
            exp_sr.push(off - min + d);
        } else {
            exp_ss.push(off - min);
            exp_cr.push(off - min + d);
        }
    }
    let mut got_cs = vec![];
    let mut got_cr = vec![];
    let mut got_ss = vec![];
    let mut got_sr = vec![];
    for e in &run.events {
        if e.padding || matches!(e.event, TriggerEvent::PaddingSent { .. } | TriggerEvent::PaddingRecv) {
            return Err(("C14/padding-without-machines".into(), format!("{}", fmt_ev(e))));
        }
        if c.only_client && !e.client {
            return Err(("C14/filter-leak".into(), format!("server event {} with only_client_events", fmt_ev(e))));
        }
        if c.only_network && !is_tunnel(&e.event) {
            return Err(("C14/filter-leak".into(), format!("event {} with only_network_activity", fmt_ev(e))));
        }
        match (&e.event, e.client) {
            (TriggerEvent::TunnelSent, true) => got_cs.push(e.t as i128),
            (TriggerEvent::TunnelRecv, true) => got_cr.push(e.t as i128),
            (TriggerEvent::TunnelSent, false) => got_ss.push(e.t as i128),
            (TriggerEvent::TunnelRecv, false) => got_sr.push(e.t as i128),
            (TriggerEvent::NormalSent | TriggerEvent::NormalRecv, _) => {}
            _ => return Err(("C14/unexpected-event".into(), format!("{}", fmt_ev(e)))),
        }
    }
    // the output is time-sorted, and so is the input, so sequences must be equal
    let cmp = |name: &str, exp: &mut Vec<i128>, got: &Vec<i128>, skip: bool| -> Result<(), (String, String)> {
        if skip {
            if !got.is_empty() {
                return Err(("C14/filter-leak".into(), format!("{name}: events present despite the filter")));
            }
            return Ok(());
        }
        exp.sort();
        if exp != got {
            let i = exp.iter().zip(got.iter()).position(|(a, b)| a != b).unwrap_or(exp.len().min(got.len()));
            return Err((
                "C14/tunnel-times-differ".into(),
                format!(
                    "{name}: {} events expected, {} returned; first difference at #{i}: expected t={:?} ns, got t={:?} ns",
                    exp.len(),
                    got.len(),
                    exp.get(i),
                    got.get(i)
                ),
            ));
        }
        Ok(())
    };
    cmp("client tunnel-sent", &mut exp_cs, &got_cs, false)?;
    cmp("client tunnel-received", &mut exp_cr, &got_cr, false)?;
    cmp("server tunnel-sent", &mut exp_ss, &got_ss, c.only_client)?;
    cmp("server tunnel-received", &mut exp_sr, &got_sr, c.only_client)?;
    Ok(())
}

// ---------------------------------------------------------------------------------------------
// C15: conservation and causality

#[derive(Default, Debug)]
pub struct ConsStats {
    pub padding_received: u64,
    pub normal_received: u64,
    pub relabelled_normal: u64,
    pub runs_natural_end: bool,
    pub delayed_beyond_network: u64,
}

pub fn check_conservation(c: &SimCase, run: &SimRun) -> Result<ConsStats, (String, String)> {
    let ev = &run.events;
    let mut st = ConsStats::default();
    for w in ev.windows(2) {
        if w[1].t < w[0].t {
            return Err(("C15/not-time-ordered".into(), format!("{} before {}", fmt_ev(&w[0]), fmt_ev(&w[1]))));
        }
    }
    let share_client = c.lines.iter().filter(|l| l.1).count();
    let share_server = c.lines.len() - share_client;
    for side in [true, false] {
        for padding in [false, true] {
            let sends: Vec<u64> = ev
                .iter()
                .filter(|e| e.client != side && e.event == TriggerEvent::TunnelSent && e.padding == padding)
                .map(|e| e.t)
                .collect();
            let recvs: Vec<u64> = ev
                .iter()
                .filter(|e| e.client == side && e.event == TriggerEvent::TunnelRecv && e.padding == padding)
                .map(|e| e.t)
                .collect();
            // greedy matching: every receive takes the earliest unused send that is at least one network
            // delay older (both lists are time-sorted)
            let mut si = 0usize;
            for (ri, tr) in recvs.iter().enumerate() {
                if si >= sends.len() || sends[si] + c.delay_ns > *tr {
                    return Err((
                        "C15/receive-without-send".into(),
                        format!(
                            "{} side received a {} packet at t={tr} ns (#{ri} of its kind) but the other side has only {} matching tunnel-sent packets at least {} ns earlier (next candidate sent at {:?})",
                            if side { "client" } else { "server" },
                            if padding { "padding" } else { "normal" },
                            si,
                            c.delay_ns,
                            sends.get(si)
                        ),
                    ));
                }
                if *tr > sends[si] + c.delay_ns {
                    st.delayed_beyond_network += 1;
                }
                si += 1;
                if padding {
                    st.padding_received += 1;
                } else {
                    st.normal_received += 1;
                }
            }
        }
    }
    let natural = ev.len() < c.max_iter && c.max_trace_length == 0;
    st.runs_natural_end = natural;
    for (side, share) in [(true, share_client), (false, share_server)] {
        let n = ev.iter().filter(|e| e.client == side && e.event == TriggerEvent::TunnelSent && !e.padding).count();
        if n > share {
            return Err((
                "C15/normal-packets-created".into(),
                format!("{} sent {n} normal packets, its share of the input trace is {share}", if side { "client" } else { "server" }),
            ));
        }
        if natural && n != share {
            return Err((
                "C15/normal-packets-lost".into(),
                format!(
                    "run ended by itself after {} events (bound {}), {} sent {n} normal packets of its {share}",
                    ev.len(),
                    c.max_iter,
                    if side { "client" } else { "server" }
                ),
            ));
        }
        st.relabelled_normal += ev.iter().filter(|e| e.client == side && e.event == TriggerEvent::TunnelSent && !e.padding && e.bypass).count() as u64;
    }
    Ok(st)
}
