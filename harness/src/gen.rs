//! Generators for machines, distributions and event histories.

use enum_map::{enum_map, EnumMap};
use maybenot::action::{Action, Timer};
use maybenot::constants::{STATE_END, STATE_SIGNAL};
use maybenot::counter::{Counter, Operation};
use maybenot::dist::{Dist, DistType};
use maybenot::event::{Event, TriggerEvent};
use maybenot::state::{State, Trans};
use maybenot::{Machine, MachineId};

use crate::util::{Pick, Xo};

#[derive(Clone, Copy, Debug, PartialEq, Eq)]
pub enum Profile {
    /// probability-1 transitions, constant distributions
    Det,
    /// probabilities from {1/4, 1/2, 3/4, 1}, constant distributions
    Dyadic,
    /// everything the validator admits
    Wild,
}

#[derive(Clone, Debug)]
pub struct MCfg {
    pub profile: Profile,
    pub max_states: usize,
    /// probability (in 1/16) that a (state, event) pair declares transitions
    pub density16: u64,
    pub allow_signal: bool,
    pub allow_end: bool,
    pub allow_binomial: bool,
    pub allow_counters: bool,
    /// action kinds allowed: cancel, padding, blocking, timer
    pub kinds: [bool; 4],
    /// probability (in 1/16) that a state has an action
    pub action16: u64,
    /// probability (in 1/16) that a limitable action has a limit
    pub limit16: u64,
    /// budgets and fractions
    pub budgets: bool,
    /// timeouts/durations small (simulator-commensurate) rather than arbitrary
    pub small_times: bool,
}

impl MCfg {
    pub fn wild() -> Self {
        MCfg {
            profile: Profile::Wild,
            max_states: 6,
            density16: 6,
            allow_signal: true,
            allow_end: true,
            allow_binomial: true,
            allow_counters: true,
            kinds: [true; 4],
            action16: 12,
            limit16: 8,
            budgets: true,
            small_times: false,
        }
    }
    pub fn det() -> Self {
        MCfg {
            profile: Profile::Det,
            ..Self::wild()
        }
    }
    pub fn dyadic() -> Self {
        MCfg {
            profile: Profile::Dyadic,
            ..Self::wild()
        }
    }
}

#[derive(Clone, Copy, Debug, PartialEq, Eq)]
pub enum DistUse {
    Timeout,
    Duration,
    Limit,
    CounterValue,
}

pub fn constant(v: f64) -> Dist {
    Dist::new(DistType::Uniform { low: v, high: v }, 0.0, 0.0)
}

const U64MAXF: f64 = 18446744073709551615.0;

thread_local! {
    /// "slow world": factor applied to the simulator-commensurate (small) timeouts and durations, so that the
    /// same shapes of machines are also met at time scales beyond 2^32 microseconds
    static TIME_MULT: std::cell::Cell<f64> = const { std::cell::Cell::new(1.0) };
}

/// Run a generator with all small timeouts and durations multiplied by `m`.
pub fn with_time_mult<T>(m: f64, f: impl FnOnce() -> T) -> T {
    struct Reset;
    impl Drop for Reset {
        fn drop(&mut self) {
            TIME_MULT.with(|c| c.set(1.0));
        }
    }
    let _reset = Reset;
    TIME_MULT.with(|c| c.set(m));
    f()
}

fn time_mult() -> f64 {
    TIME_MULT.with(|c| c.get())
}

fn const_for(r: &mut Xo, u: DistUse, small: bool) -> f64 {
    match u {
        DistUse::Timeout | DistUse::Duration => {
            if small {
                *r.pick(&[0.0, 0.0, 1.0, 2.0, 3.0, 5.0, 10.0, 50.0, 100.0, 1000.0, 20000.0]) * time_mult()
            } else {
                *r.pick(&[
                    0.0,
                    0.0,
                    1.0,
                    2.0,
                    10.0,
                    1000.0,
                    1.0e6,
                    8.64e10,
                    8.64e10 + 1.0,
                    1.0e15,
                    1.0e300,
                ])
            }
        }
        DistUse::Limit => *r.pick(&[0.0, 0.0, 1.0, 1.0, 2.0, 2.0, 3.0, 4.0, 5.0, 0.4, 0.6, 1.0e18, 1.0e30]),
        DistUse::CounterValue => *r.pick(&[
            0.0,
            1.0,
            1.0,
            2.0,
            2.0,
            3.0,
            5.0,
            0.7,
            U64MAXF,
            U64MAXF / 2.0,
            1.8446744073709550e19,
            1.0e30,
        ]),
    }
}

/// A random valid distribution of a random family.
pub fn wild_dist(r: &mut Xo, u: DistUse, allow_binomial: bool, small: bool) -> Dist {
    for _ in 0..64 {
        let scale_hi: f64 = match u {
            DistUse::Timeout | DistUse::Duration => {
                if small {
                    *r.pick(&[5.0, 50.0, 1000.0, 20000.0]) * time_mult()
                } else {
                    *r.pick(&[10.0, 1.0e4, 1.0e7, 1.0e12, 1.0e30, 1.0e300])
                }
            }
            DistUse::Limit => *r.pick(&[2.0, 4.0, 8.0, 1.0e6]),
            DistUse::CounterValue => *r.pick(&[2.0, 4.0, 10.0, 1.0e19, 1.0e25]),
        };
        let x = r.unit_f64() * scale_hi;
        let y = r.unit_f64() * scale_hi;
        let fam = r.below(11);
        let dist = match fam {
            0 => DistType::Uniform {
                low: if r.chance(1, 4) { -x } else { x.min(y) },
                high: x.max(y),
            },
            1 => DistType::Normal {
                mean: if r.chance(1, 4) { -x } else { x },
                stdev: if r.chance(1, 8) { 0.0 } else { y },
            },
            2 => DistType::SkewNormal {
                location: x,
                scale: y.max(f64::MIN_POSITIVE),
                shape: (r.unit_f64() - 0.5) * 20.0,
            },
            3 => DistType::LogNormal {
                mu: r.unit_f64() * scale_hi.ln().max(1.0),
                sigma: r.unit_f64() * *r.pick(&[0.0, 1.0, 3.0, 50.0]),
            },
            4 => {
                if !allow_binomial {
                    continue;
                }
                DistType::Binomial {
                    trials: *r.pick(&[0, 1, 2, 4, 10, 100, 1000, 1_000_000, 1_000_000_000]),
                    probability: *r.pick(&[0.0, 1.0e-9, 0.01, 0.25, 0.5, 0.5, 0.75, 0.99, 1.0]),
                }
            }
            5 => DistType::Geometric {
                probability: *r.pick(&[0.0, 1.0e-9, 1.0e-3, 0.1, 0.5, 0.7, 0.99, 1.0]),
            },
            6 => DistType::Pareto {
                scale: x.max(f64::MIN_POSITIVE),
                shape: *r.pick(&[0.1, 0.5, 1.0, 2.0, 10.0]),
            },
            7 => DistType::Poisson {
                lambda: *r.pick(&[1.0e-3, 0.5, 1.0, 5.0, 11.9, 12.0, 100.0, 1.0e6, 1.0e15]),
            },
            8 => DistType::Weibull {
                scale: x.max(f64::MIN_POSITIVE),
                shape: *r.pick(&[0.1, 0.5, 1.0, 2.0, 10.0]),
            },
            9 => DistType::Gamma {
                scale: x.max(f64::MIN_POSITIVE),
                shape: *r.pick(&[0.1, 0.5, 1.0, 2.0, 10.0, 100.0]),
            },
            _ => DistType::Beta {
                alpha: *r.pick(&[0.1, 0.5, 1.0, 2.0, 10.0]),
                beta: *r.pick(&[0.1, 0.5, 1.0, 2.0, 10.0]),
            },
        };
        let start = if r.chance(1, 4) { r.unit_f64() * scale_hi } else { 0.0 };
        let max = if r.chance(1, 3) {
            start + r.unit_f64() * scale_hi
        } else {
            0.0
        };
        let d = Dist::new(dist, start, max);
        if d.validate().is_ok() {
            return d;
        }
    }
    constant(1.0)
}

pub fn gen_dist(r: &mut Xo, cfg: &MCfg, u: DistUse) -> Dist {
    match cfg.profile {
        Profile::Det | Profile::Dyadic => constant(const_for(r, u, cfg.small_times)),
        Profile::Wild => {
            if r.chance(1, 2) {
                constant(const_for(r, u, cfg.small_times))
            } else if u == DistUse::Limit && r.chance(1, 2) {
                // small sampled limits
                if cfg.allow_binomial && r.chance(1, 2) {
                    Dist::new(
                        DistType::Binomial {
                            trials: 4,
                            probability: 0.5,
                        },
                        0.0,
                        0.0,
                    )
                } else {
                    Dist::new(DistType::Uniform { low: 0.0, high: 4.0 }, 0.0, 0.0)
                }
            } else {
                wild_dist(r, u, cfg.allow_binomial, cfg.small_times)
            }
        }
    }
}

pub fn gen_action(r: &mut Xo, cfg: &MCfg) -> Option<Action> {
    if !r.chance(cfg.action16, 16) {
        return None;
    }
    let kinds: Vec<usize> = (0..4).filter(|k| cfg.kinds[*k]).collect();
    if kinds.is_empty() {
        return None;
    }
    let limit = |r: &mut Xo| {
        if r.chance(cfg.limit16, 16) {
            Some(gen_dist(r, cfg, DistUse::Limit))
        } else {
            None
        }
    };
    Some(match *r.pick(&kinds) {
        0 => Action::Cancel {
            timer: *r.pick(&[Timer::Action, Timer::Internal, Timer::All]),
        },
        1 => Action::SendPadding {
            bypass: r.chance(1, 2),
            replace: r.chance(1, 2),
            timeout: gen_dist(r, cfg, DistUse::Timeout),
            limit: limit(r),
        },
        2 => Action::BlockOutgoing {
            bypass: r.chance(1, 2),
            replace: r.chance(1, 2),
            timeout: gen_dist(r, cfg, DistUse::Timeout),
            duration: gen_dist(r, cfg, DistUse::Duration),
            limit: limit(r),
        },
        _ => Action::UpdateTimer {
            replace: r.chance(1, 2),
            duration: gen_dist(r, cfg, DistUse::Duration),
            limit: limit(r),
        },
    })
}

pub fn gen_counter(r: &mut Xo, cfg: &MCfg) -> Option<Counter> {
    if !cfg.allow_counters || !r.chance(5, 16) {
        return None;
    }
    let op = *r.pick(&[Operation::Increment, Operation::Decrement, Operation::Decrement, Operation::Set]);
    Some(match r.below(7) {
        0 | 1 => Counter::new(op),
        2 | 3 => Counter::new_dist(op, gen_dist(r, cfg, DistUse::CounterValue)),
        4 | 5 => Counter::new_copy(op),
        // no constructor builds this, the fields are public: copy supersedes the distribution
        _ => Counter {
            operation: op,
            dist: Some(gen_dist(r, cfg, DistUse::CounterValue)),
            copy: true,
        },
    })
}

pub const ALL_EVENTS: [Event; 13] = [
    Event::NormalRecv,
    Event::PaddingRecv,
    Event::TunnelRecv,
    Event::NormalSent,
    Event::PaddingSent,
    Event::TunnelSent,
    Event::BlockingBegin,
    Event::BlockingEnd,
    Event::LimitReached,
    Event::CounterZero,
    Event::TimerBegin,
    Event::TimerEnd,
    Event::Signal,
];

/// A transition vector for one (state, event).
pub fn gen_trans(r: &mut Xo, cfg: &MCfg, nstates: usize) -> Vec<Trans> {
    let mut pool: Vec<usize> = (0..nstates).collect();
    if cfg.allow_end && r.chance(1, 6) {
        pool.push(STATE_END);
    }
    if cfg.allow_signal && r.chance(1, 4) {
        pool.push(STATE_SIGNAL);
    }
    // shuffle the pool (Fisher-Yates)
    for i in (1..pool.len()).rev() {
        let j = r.below(i as u64 + 1) as usize;
        pool.swap(i, j);
    }
    match cfg.profile {
        Profile::Det => vec![Trans(pool[0], 1.0)],
        Profile::Dyadic => {
            // split 4 quarters among up to 3 targets, possibly leaving a rest
            let mut left = 4u32;
            let mut v = vec![];
            for t in pool.iter().take(3) {
                if left == 0 {
                    break;
                }
                let q = r.range(1, left as u64) as u32;
                v.push(Trans(*t, q as f32 / 4.0));
                left -= q;
                if r.chance(1, 2) {
                    break;
                }
            }
            v
        }
        Profile::Wild => {
            let k = (r.range(1, 4) as usize).min(pool.len());
            loop {
                let total: f32 = if r.chance(1, 2) { 1.0 } else { r.unit_f64() as f32 };
                let ws: Vec<f32> = (0..k).map(|_| r.unit_f64() as f32 + 0.01).collect();
                let s: f32 = ws.iter().sum();
                let v: Vec<Trans> = pool
                    .iter()
                    .take(k)
                    .zip(ws.iter())
                    .map(|(t, w)| Trans(*t, w / s * total))
                    .collect();
                let mut sum: f32 = 0.0;
                let mut ok = true;
                for t in &v {
                    if !(t.1 > 0.0 && t.1 <= 1.0) {
                        ok = false;
                    }
                    sum += t.1;
                }
                if ok && sum > 0.0 && sum <= 1.0 {
                    return v;
                }
                if k == 1 {
                    return vec![Trans(pool[0], 1.0)];
                }
            }
        }
    }
}

pub fn gen_state(r: &mut Xo, cfg: &MCfg, nstates: usize) -> State {
    let mut t: EnumMap<Event, Vec<Trans>> = enum_map! { _ => vec![] };
    for e in ALL_EVENTS {
        // internal events a bit more likely so that they matter
        let d = match e {
            Event::LimitReached | Event::CounterZero | Event::Signal => cfg.density16 + 3,
            _ => cfg.density16,
        };
        if r.chance(d, 16) {
            t[e] = gen_trans(r, cfg, nstates);
        }
    }
    let mut s = State::new(t);
    s.action = gen_action(r, cfg);
    s.counter = (gen_counter(r, cfg), gen_counter(r, cfg));
    s
}

pub fn gen_frac(r: &mut Xo) -> f64 {
    if r.chance(1, 24) {
        // positive but tiny: still a limit
        return *r.pick(&[f64::MIN_POSITIVE, 5.0e-324, 1.0e-300, 1.0e-17, f64::EPSILON, f64::EPSILON / 2.0]);
    }
    match r.below(8) {
        0 | 1 | 2 => 0.0,
        3 => 1.0,
        4 => 0.5,
        5 => 0.25,
        6 => 1.0 / 3.0,
        _ => r.unit_f64(),
    }
}

pub fn gen_machine(r: &mut Xo, cfg: &MCfg) -> Machine {
    loop {
        let n = r.range(1, cfg.max_states as u64) as usize;
        let states: Vec<State> = (0..n).map(|_| gen_state(r, cfg, n)).collect();
        let (app, mpf, abm, mbf) = if cfg.budgets {
            (
                *r.pick(&[0, 0, 1, 2, 5, 1000, u64::MAX]),
                gen_frac(r),
                *r.pick(&[0, 0, 1, 1000, 1_000_000, u64::MAX]),
                gen_frac(r),
            )
        } else {
            (0, 0.0, 0, 0.0)
        };
        if let Ok(m) = Machine::new(app, mpf, abm, mbf, states) {
            return m;
        }
    }
}

/// Validation does not constrain `start` and `max` of a distribution: a validated machine may carry
/// start > max, negative, infinite or NaN bounds. Rewrites some of the machine's distributions that
/// way (the result is validated again; the original is returned if it does not pass).
pub fn hostile_bounds(r: &mut Xo, m: &Machine) -> (Machine, usize) {
    const START: [f64; 10] = [1.0, 7.5, 1.0e6, 1.0e30, f64::MAX, f64::INFINITY, f64::NEG_INFINITY, f64::NAN, -1.0, -1.0e30];
    const MAX: [f64; 10] = [0.5, 1.0, 3.0, 1.0e-300, f64::MIN_POSITIVE, f64::INFINITY, f64::NEG_INFINITY, f64::NAN, -1.0, f64::MAX];
    let mut changed = 0usize;
    let mut twist = |r: &mut Xo, d: &mut Dist| {
        if r.chance(1, 2) {
            match r.below(3) {
                0 => d.start = *r.pick(&START),
                1 => d.max = *r.pick(&MAX),
                _ => {
                    d.start = *r.pick(&START);
                    d.max = *r.pick(&MAX);
                }
            }
            changed += 1;
        }
    };
    let mut states = m.states.clone();
    for s in states.iter_mut() {
        match &mut s.action {
            Some(Action::SendPadding { timeout, limit, .. }) => {
                twist(r, timeout);
                if let Some(l) = limit {
                    twist(r, l)
                }
            }
            Some(Action::BlockOutgoing { timeout, duration, limit, .. }) => {
                twist(r, timeout);
                twist(r, duration);
                if let Some(l) = limit {
                    twist(r, l)
                }
            }
            Some(Action::UpdateTimer { duration, limit, .. }) => {
                twist(r, duration);
                if let Some(l) = limit {
                    twist(r, l)
                }
            }
            _ => {}
        }
        let (a, b) = &mut s.counter;
        for c in [a, b].into_iter().flatten() {
            if let Some(d) = &mut c.dist {
                twist(r, d)
            }
        }
    }
    match Machine::new(m.allowed_padding_packets, m.max_padding_frac, m.allowed_blocked_microsec, m.max_blocking_frac, states) {
        Ok(nm) => (nm, changed),
        Err(_) => (m.clone(), 0),
    }
}

/// Rewrites one transition target of the machine to a value outside the states and pseudo-states
/// (or one probability to a value outside (0,1]) and offers the result to validation. On a sound
/// validation this returns None; whatever validation accepts is a machine the framework must run.
pub fn hostile_structure(r: &mut Xo, m: &Machine) -> Option<Machine> {
    let n = m.states.len();
    let si = r.below(n as u64) as usize;
    let mut states = m.states.clone();
    let mut t = states[si].get_transitions();
    let e = *r.pick(&ALL_EVENTS);
    let bad_target = *r.pick(&[n, n + 1, 65_535, 65_536, STATE_SIGNAL - 1, STATE_END + 1, 1usize << 32, (1usize << 32) + 1, usize::MAX, usize::MAX - 1, usize::MAX / 2]);
    match r.below(4) {
        0 => t[e] = vec![Trans(bad_target, 1.0)],
        1 => {
            if t[e].is_empty() {
                t[e] = vec![Trans(0, 0.5), Trans(bad_target, 0.5)];
            } else {
                t[e][0].0 = bad_target;
            }
        }
        2 => t[e] = vec![Trans(0, *r.pick(&[f32::NAN, 1.5, -0.5, 0.0, f32::INFINITY, 1.0 + f32::EPSILON]))],
        _ => t[e] = vec![Trans(0, 0.75), Trans(STATE_END, 0.75)],
    }
    let mut ns = State::new(t);
    ns.action = states[si].action;
    ns.counter = states[si].counter;
    states[si] = ns;
    Machine::new(m.allowed_padding_packets, m.max_padding_frac, m.allowed_blocked_microsec, m.max_blocking_frac, states).ok()
}

pub fn gen_machines(r: &mut Xo, cfg: &MCfg, lo: usize, hi: usize) -> Vec<Machine> {
    let n = r.range(lo as u64, hi as u64) as usize;
    (0..n).map(|_| gen_machine(r, cfg)).collect()
}

// ---------------------------------------------------------------------------------------------
// histories

#[derive(Clone, Debug)]
pub struct Call {
    pub events: Vec<TriggerEvent>,
    /// signed time step in µs relative to the previous call
    pub step: i64,
}

#[derive(Clone, Debug)]
pub struct HCfg {
    pub calls: usize,
    pub max_batch: usize,
    /// allow empty batches
    pub empty: bool,
    pub backwards: bool,
    pub huge_steps: bool,
    pub unknown_ids: bool,
}

pub fn gen_id(r: &mut Xo, n: usize, unknown: bool) -> MachineId {
    let raw = if unknown && r.chance(1, 6) || n == 0 {
        // unknown ids, among them ids that coincide with an existing machine in their low 8, 16 or 32 bits
        let alias = if n > 0 { r.below(n as u64) as usize } else { 0 };
        *r.pick(&[n, n + 1, usize::MAX, u32::MAX as usize, (1usize << 32) + alias, (3usize << 32) + alias, (1usize << 16) + alias, 256 + alias, 1usize << 32, usize::MAX - alias])
    } else {
        r.below(n as u64) as usize
    };
    MachineId::from_raw(raw)
}

pub fn gen_event(r: &mut Xo, n: usize, unknown: bool) -> TriggerEvent {
    match r.below(14) {
        0 => TriggerEvent::NormalRecv,
        1 => TriggerEvent::PaddingRecv,
        2 => TriggerEvent::TunnelRecv,
        3 | 4 => TriggerEvent::NormalSent,
        5 | 6 => TriggerEvent::PaddingSent {
            machine: gen_id(r, n, unknown),
        },
        7 => TriggerEvent::TunnelSent,
        8 | 9 => TriggerEvent::BlockingBegin {
            machine: gen_id(r, n, unknown),
        },
        10 => TriggerEvent::BlockingEnd,
        11 | 12 => TriggerEvent::TimerBegin {
            machine: gen_id(r, n, unknown),
        },
        _ => TriggerEvent::TimerEnd {
            machine: gen_id(r, n, unknown),
        },
    }
}

pub fn gen_step(r: &mut Xo, h: &HCfg) -> i64 {
    match r.below(16) {
        0..=3 => 0,
        4..=6 => 1,
        7..=9 => r.range(2, 5000) as i64,
        10 | 11 => r.range(5000, 10_000_000) as i64,
        12 => {
            if h.huge_steps {
                *r.pick(&[3_600_000_000i64, 86_400_000_000, 31_536_000_000_000, 1 << 50])
            } else {
                1000
            }
        }
        13 | 14 => {
            if h.backwards {
                -(r.range(1, 10_000_000) as i64)
            } else {
                7
            }
        }
        _ => r.range(1, 100) as i64,
    }
}

/// The completion event matching an action kind, for machine `m`.
pub fn completion_for(kind: u8, m: usize) -> TriggerEvent {
    let machine = MachineId::from_raw(m);
    match kind {
        1 => TriggerEvent::PaddingSent { machine },
        2 => TriggerEvent::BlockingBegin { machine },
        _ => TriggerEvent::TimerBegin { machine },
    }
}

pub fn fmt_events(ev: &[TriggerEvent]) -> String {
    let mut s = String::new();
    for (i, e) in ev.iter().enumerate() {
        if i > 0 {
            s.push(' ');
        }
        if i >= 48 {
            // display only: a batch of a million events must not end up in an evidence or witness file
            s += &format!("... ({} events in all)", ev.len());
            break;
        }
        match e {
            TriggerEvent::PaddingSent { machine } => s += &format!("sp{}", machine.into_raw() as i64),
            TriggerEvent::BlockingBegin { machine } => s += &format!("bb{}", machine.into_raw() as i64),
            TriggerEvent::TimerBegin { machine } => s += &format!("tb{}", machine.into_raw() as i64),
            TriggerEvent::TimerEnd { machine } => s += &format!("te{}", machine.into_raw() as i64),
            other => s += &format!("{}", other),
        }
    }
    s
}

/// A machine that never does anything: one state, no transitions, no action.
pub fn inert_machine() -> Machine {
    Machine::new(0, 0.0, 0, 0.0, vec![State::new(enum_map::enum_map! { _ => vec![] })]).expect("the inert machine is valid")
}

/// Wide frameworks, so that the same behaviours are also met at machine indices beyond 32, 255 and 65 535.
/// Layout 0: the generated line-up repeated (copies act in step with their originals, identical machines a
/// fixed distance apart); layout 1: inert machines first, the generated ones at the very end (the only
/// machines that act sit at the highest indices); layout 2: the generated ones at the start and once more
/// `width - n` positions further on, inert machines in between (every acting machine has exactly one twin,
/// at a distance of 32, 64, 256 or 65 536 when the width is chosen so).
pub fn widen(machines: Vec<Machine>, width: usize, layout: u64) -> Vec<Machine> {
    let n = machines.len();
    if n == 0 || width <= n {
        return machines;
    }
    match layout % 3 {
        0 => (0..width).map(|i| machines[i % n].clone()).collect(),
        1 => (0..width).map(|i| if i >= width - n { machines[i - (width - n)].clone() } else { inert_machine() }).collect(),
        _ => (0..width + n)
            .map(|i| if i < n { machines[i].clone() } else if i >= width { machines[i - width].clone() } else { inert_machine() })
            .collect(),
    }
}

/// Width and layout of the framework for case `case`: two cases per 32768 are wider than 2^16 machines (the
/// acting machines at indices beyond 65 535, or with a twin exactly 65 536 positions away), one in 128 is wider
/// than 32, the rest as generated.
pub fn wide_width(r: &mut Xo, case: u64) -> Option<(usize, u64)> {
    match case % 32768 {
        1 => Some((*r.pick(&[65_540usize, 65_600]), 1)),
        2 => Some((65_536, 2)),
        _ if r.chance(1, 128) => Some((*r.pick(&[32usize, 33, 40, 64, 65, 100, 256, 257, 300]), r.below(3))),
        _ => None,
    }
}
