//! Executable reference semantics (DESIGN.md section 3).
