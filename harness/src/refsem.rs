//! Executable reference semantics of the framework (DESIGN.md section 3, rules R1–R14), written
//! as a trace-conformance checker: it re-derives, from the public machine definitions and the
//! inputs of a call, which internal steps must happen in which order, and consumes the step log of
//! the real call (hook H1) as the source of the *random choices only* (sampled next state, sampled
//! limit, sampled counter operand), checking each of them against the declared support. Everything
//! else (which deliveries, in which order, counters, limits, accounting, budgets, signals, action
//! slots) is computed here and compared.

use maybenot::action::Action;
use maybenot::constants::{STATE_END, STATE_SIGNAL};
use maybenot::counter::{Counter, Operation};
use maybenot::dist::{Dist, DistType};
use maybenot::event::{Event, TriggerEvent};
use maybenot::verif::{Snapshot, Step};
use maybenot::Machine;

use crate::drive::{shape_of, Act};
use crate::util::VClock;

pub const DAY_US: f64 = 86_400_000_000.0;

#[derive(Clone, Debug, PartialEq, Eq, Hash)]
pub struct RefMachine {
    pub state: usize,
    pub limit: u64,
    pub padding_sent: u64,
    pub normal_sent: u64,
    pub blocked: u64,
    pub counter_a: u64,
    pub counter_b: u64,
}

/// Rule counters: how often each part of the semantics was exercised.
#[derive(Clone, Debug, Default)]
pub struct RuleStats {
    pub deliveries: u64,
    pub deliveries_to_ended: u64,
    pub no_transition_declared: u64,
    pub sampled_none: u64,
    pub to_end: u64,
    pub to_signal: u64,
    pub self_transition: u64,
    pub state_change: u64,
    pub limit_sampled: u64,
    pub counter_updates: u64,
    pub counter_copy: u64,
    pub counter_saturated_hi: u64,
    pub counter_saturated_lo: u64,
    pub counter_zero: u64,
    pub counter_zero_no_permit: u64,
    pub counter_zero_took_precedence: u64,
    pub scheduled: u64,
    pub denied_by_limits: u64,
    pub denied_padding_budget: u64,
    pub denied_blocking_budget: u64,
    pub allowed_by_budget: u64,
    pub allowed_replace_active: u64,
    pub limit_decrement: u64,
    pub limit_reached: u64,
    pub signal_rounds: u64,
    pub signal_second_round: u64,
    pub signal_carried_over: u64,
    pub blocking_end_accounted: u64,
    pub time_backwards: u64,
    pub draws_checked: u64,
}

#[derive(Clone, Debug)]
pub struct RefFw<'a> {
    pub machines: &'a [Machine],
    pub rt: Vec<RefMachine>,
    pub pf: f64,
    pub bf: f64,
    pub start: u64,
    pub now: u64,
    pub normal: u64,
    pub padding: u64,
    pub blocked: u64,
    pub block_active: bool,
    pub block_started: u64,
    /// None: nothing pending; Some(None): all; Some(Some(m)): all except m
    pub pending: Option<Option<usize>>,
    /// per machine: the state whose action occupies the slot
    pub slots: Vec<Option<usize>>,
    pub permits: Vec<(bool, bool)>,
    pub stats: RuleStats,
    /// When the only consumers of randomness are the transition draws (every distribution of every
    /// machine is a constant), the words the framework's random source hands out are known in advance
    /// and the sampled target itself is prescribed (R3): the first target whose cumulative probability
    /// exceeds the draw, none if there is no such target.
    pub oracle: Option<DrawOracle>,
}

/// The 32-bit words the framework's random source will return next, in order.
#[derive(Clone, Debug)]
pub enum DrawOracle {
    Script(crate::util::ScriptRng),
    Words { words: Vec<u32>, pos: usize },
}

impl DrawOracle {
    fn next_u32(&mut self) -> u32 {
        match self {
            DrawOracle::Script(r) => rand_core::RngCore::next_u32(r),
            DrawOracle::Words { words, pos } => {
                let w = words.get(*pos).copied().unwrap_or(0);
                *pos += 1;
                w
            }
        }
    }
}

/// True when no distribution of these machines consumes randomness (all are constants).
pub fn only_transition_draws(machines: &[Machine]) -> bool {
    let konst = |d: &Dist| matches!(d.dist, maybenot::dist::DistType::Uniform { low, high } if low == high);
    machines.iter().all(|m| {
        m.states.iter().all(|s| {
            let a = match &s.action {
                Some(Action::SendPadding { timeout, limit, .. }) => konst(timeout) && limit.as_ref().map_or(true, konst),
                Some(Action::BlockOutgoing { timeout, duration, limit, .. }) => konst(timeout) && konst(duration) && limit.as_ref().map_or(true, konst),
                Some(Action::UpdateTimer { duration, limit, .. }) => konst(duration) && limit.as_ref().map_or(true, konst),
                _ => true,
            };
            let c = |c: &Option<maybenot::counter::Counter>| c.as_ref().map_or(true, |c| c.copy || c.dist.as_ref().map_or(true, konst));
            a && c(&s.counter.0) && c(&s.counter.1)
        })
    })
}

struct Cursor<'l> {
    log: &'l [Step],
    pos: usize,
}

impl<'l> Cursor<'l> {
    fn next(&mut self, want: &str) -> Result<&'l Step, String> {
        if self.pos >= self.log.len() {
            return Err(format!("log ended at step {} where the semantics requires {want}", self.pos));
        }
        self.pos += 1;
        Ok(&self.log[self.pos - 1])
    }
}

fn clamp_fn(d: &Dist, y: f64) -> f64 {
    let mut r: f64 = 0.0;
    r = r.max(y);
    if d.max > 0.0 {
        r = r.min(d.max);
    }
    r
}

/// Closed interval of values `Dist::sample` can return (before rounding), from the definition.
pub fn support(d: &Dist) -> (f64, f64) {
    let (lo, hi): (f64, f64) = match d.dist {
        DistType::Uniform { low, high } => (low, high),
        DistType::Binomial { trials, .. } => (0.0, trials as f64),
        DistType::Beta { .. } => (0.0, 1.0),
        DistType::Pareto { scale, .. } => (scale, f64::INFINITY),
        DistType::Normal { .. } | DistType::SkewNormal { .. } => (f64::NEG_INFINITY, f64::INFINITY),
        _ => (0.0, f64::INFINITY),
    };
    let exact_lo = matches!(d.dist, DistType::Uniform { .. });
    let lo_b = if exact_lo { clamp_fn(d, lo + d.start) } else { 0.0 };
    let hi_b = clamp_fn(d, hi + d.start);
    (lo_b.min(hi_b), hi_b)
}

/// Is `v` a possible result of `sample().min(cap).round() as u64` (round=true) or
/// `sample() as u64` (round=false)?
pub fn in_support(d: &Dist, v: u64, cap: f64, round: bool) -> bool {
    let (lo, hi) = support(d);
    let f = |x: f64| -> u64 {
        let x = x.min(cap);
        if round {
            x.round() as u64
        } else {
            x as u64
        }
    };
    f(lo) <= v && v <= f(hi)
}

fn f32_sum_below_one(ts: &[maybenot::state::Trans]) -> bool {
    let mut s: f32 = 0.0;
    let mut exact: f64 = 0.0;
    for t in ts {
        s += t.1;
        exact += t.1 as f64;
    }
    s < 1.0 || exact < 1.0
}

impl<'a> RefFw<'a> {
    /// R12. `log` is the step log right after `Framework::new` (the sampled initial limits).
    pub fn new(machines: &'a [Machine], pf: f64, bf: f64, start: VClock, log: &[Step]) -> Result<Self, String> {
        let mut rt = vec![];
        if log.len() != machines.len() {
            return Err(format!("construction logged {} steps for {} machines", log.len(), machines.len()));
        }
        for (mi, m) in machines.iter().enumerate() {
            let limit = match &log[mi] {
                Step::Limit { machine, limit } if *machine == mi => *limit,
                other => return Err(format!("construction step {mi}: expected Limit for machine {mi}, got {other:?}")),
            };
            check_limit(&m.states[0].action, limit, true).map_err(|e| format!("machine {mi} initial limit: {e}"))?;
            rt.push(RefMachine {
                state: 0,
                limit,
                padding_sent: 0,
                normal_sent: 0,
                blocked: 0,
                counter_a: 0,
                counter_b: 0,
            });
        }
        Ok(RefFw {
            machines,
            rt,
            pf,
            bf,
            start: start.0,
            now: start.0,
            normal: 0,
            padding: 0,
            blocked: 0,
            block_active: false,
            block_started: start.0,
            pending: None,
            slots: vec![None; machines.len()],
            permits: vec![(false, false); machines.len()],
            stats: RuleStats::default(),
            oracle: None,
        })
    }

    /// R1: one call. Checks the log, the returned actions and the snapshot.
    pub fn call(
        &mut self,
        events: &[TriggerEvent],
        now: VClock,
        log: &[Step],
        actions: &[Act],
        snap: &Snapshot<VClock>,
    ) -> Result<(), String> {
        let n = self.machines.len();
        for s in self.slots.iter_mut() {
            *s = None;
        }
        for p in self.permits.iter_mut() {
            *p = (false, false);
        }
        if now.0 < self.now {
            self.stats.time_backwards += 1;
        }
        self.now = now.0;
        let mut cur = Cursor { log, pos: 0 };
        for (ei, e) in events.iter().enumerate() {
            self.dispatch(e, &mut cur).map_err(|m| format!("event #{ei} {e:?}: {m}"))?;
        }
        // R10: the signal round
        if let Some(target) = self.pending.take() {
            match cur.next("SignalRound")? {
                Step::SignalRound => {}
                other => return Err(format!("expected SignalRound, log has {other:?}")),
            }
            self.stats.signal_rounds += 1;
            for mi in 0..n {
                if target == Some(mi) {
                    continue;
                }
                self.deliver(mi, Event::Signal, &mut cur).map_err(|m| format!("signal round, machine {mi}: {m}"))?;
            }
            if self.pending.take().is_some() {
                if let Some(x) = target {
                    self.stats.signal_second_round += 1;
                    self.deliver(x, Event::Signal, &mut cur)
                        .map_err(|m| format!("signal second round, machine {x}: {m}"))?;
                }
            }
            if self.pending.is_some() {
                self.stats.signal_carried_over += 1;
            }
        }
        if cur.pos != log.len() {
            return Err(format!(
                "the call performed {} more internal steps than the semantics prescribes; first extra: {:?}",
                log.len() - cur.pos,
                log[cur.pos]
            ));
        }
        // R13: the returned actions are the occupied slots in machine order
        let expected: Vec<usize> = (0..n).filter(|mi| self.slots[*mi].is_some()).collect();
        let got: Vec<usize> = actions.iter().map(|a| a.machine).collect();
        if expected != got {
            return Err(format!("actions returned for machines {got:?}, semantics prescribes {expected:?}"));
        }
        for a in actions {
            let st = self.slots[a.machine].unwrap();
            let def = self.machines[a.machine].states[st]
                .action
                .as_ref()
                .ok_or("slot names a state without action")?;
            check_action(def, a).map_err(|m| format!("action of machine {} (state {st}): {m}", a.machine))?;
        }
        self.compare_snapshot(snap)
    }

    fn dispatch(&mut self, e: &TriggerEvent, cur: &mut Cursor<'_>) -> Result<(), String> {
        let n = self.machines.len();
        match e {
            TriggerEvent::NormalRecv => self.deliver_all(Event::NormalRecv, cur),
            TriggerEvent::PaddingRecv => self.deliver_all(Event::PaddingRecv, cur),
            TriggerEvent::TunnelRecv => self.deliver_all(Event::TunnelRecv, cur),
            TriggerEvent::TunnelSent => self.deliver_all(Event::TunnelSent, cur),
            TriggerEvent::NormalSent => {
                self.normal += 1;
                for mi in 0..n {
                    self.rt[mi].normal_sent += 1;
                    self.deliver(mi, Event::NormalSent, cur)?;
                }
                Ok(())
            }
            TriggerEvent::PaddingSent { machine } => {
                self.padding += 1;
                let mi = machine.into_raw();
                if mi >= n {
                    return Ok(());
                }
                self.rt[mi].padding_sent += 1;
                let changed = self.deliver(mi, Event::PaddingSent, cur)?;
                self.completion(mi, changed, cur)
            }
            TriggerEvent::BlockingBegin { machine } => {
                if !self.block_active {
                    self.block_active = true;
                    self.block_started = self.now;
                }
                for mi in 0..n {
                    let changed = self.deliver(mi, Event::BlockingBegin, cur)?;
                    if mi == machine.into_raw() {
                        self.completion(mi, changed, cur)?;
                    }
                }
                Ok(())
            }
            TriggerEvent::BlockingEnd => {
                let mut blocked = 0u64;
                if self.block_active {
                    blocked = self.now.saturating_sub(self.block_started);
                    self.blocked = self.blocked.saturating_add(blocked);
                    self.block_active = false;
                    self.stats.blocking_end_accounted += 1;
                }
                for mi in 0..n {
                    self.rt[mi].blocked = self.rt[mi].blocked.saturating_add(blocked);
                    self.deliver(mi, Event::BlockingEnd, cur)?;
                }
                Ok(())
            }
            TriggerEvent::TimerBegin { machine } => {
                let mi = machine.into_raw();
                if mi >= n {
                    return Ok(());
                }
                let changed = self.deliver(mi, Event::TimerBegin, cur)?;
                self.completion(mi, changed, cur)
            }
            TriggerEvent::TimerEnd { machine } => {
                let mi = machine.into_raw();
                if mi >= n {
                    return Ok(());
                }
                self.deliver(mi, Event::TimerEnd, cur)?;
                Ok(())
            }
        }
    }

    fn deliver_all(&mut self, ev: Event, cur: &mut Cursor<'_>) -> Result<(), String> {
        for mi in 0..self.machines.len() {
            self.deliver(mi, ev, cur)?;
        }
        Ok(())
    }

    /// R11: a completion of machine `mi`'s own action, after the delivery.
    fn completion(&mut self, mi: usize, changed: bool, cur: &mut Cursor<'_>) -> Result<(), String> {
        if changed || self.rt[mi].state == STATE_END {
            return Ok(());
        }
        if self.rt[mi].limit > 0 {
            self.rt[mi].limit -= 1;
            self.stats.limit_decrement += 1;
        }
        let st = self.rt[mi].state;
        if let Some(a) = &self.machines[mi].states[st].action {
            if self.rt[mi].limit == 0 && has_limit(a) {
                match cur.next("Withdrawn")? {
                    Step::Withdrawn { machine } if *machine == mi => {}
                    other => return Err(format!("limit of machine {mi} reached: expected Withdrawn, log has {other:?}")),
                }
                self.slots[mi] = None;
                self.stats.limit_reached += 1;
                self.deliver(mi, Event::LimitReached, cur)?;
            }
        }
        Ok(())
    }

    /// R3/R4: deliver `ev` to machine `mi`; returns whether the machine changed state.
    fn deliver(&mut self, mi: usize, ev: Event, cur: &mut Cursor<'_>) -> Result<bool, String> {
        self.stats.deliveries += 1;
        let want = format!("Deliver({ev:?}) to machine {mi}");
        match cur.next(&want)? {
            Step::Deliver {
                machine,
                event,
                from_state,
                state_limit,
                counter_a,
                counter_b,
            } => {
                let r = &self.rt[mi];
                if *machine != mi || *event != ev {
                    return Err(format!("expected {want}, log has Deliver({event:?}) to machine {machine}"));
                }
                if *from_state != r.state || *state_limit != r.limit || *counter_a != r.counter_a || *counter_b != r.counter_b {
                    return Err(format!(
                        "{want}: machine is in (state {from_state}, limit {state_limit}, A {counter_a}, B {counter_b}), semantics prescribes (state {}, limit {}, A {}, B {})",
                        r.state, r.limit, r.counter_a, r.counter_b
                    ));
                }
            }
            other => return Err(format!("expected {want}, log has {other:?}")),
        }
        if self.rt[mi].state == STATE_END {
            self.stats.deliveries_to_ended += 1;
            return Ok(false);
        }
        let cur_state = self.rt[mi].state;
        let trans = self.machines[mi].states[cur_state].get_transitions();
        let targets = &trans[ev];
        let next = match cur.next("Sampled")? {
            Step::Sampled { machine, next } if *machine == mi => *next,
            other => return Err(format!("{want}: expected Sampled, log has {other:?}")),
        };
        if !targets.is_empty() {
            if let Some(o) = self.oracle.as_mut() {
                // one 32-bit word per draw, the uniform value is its top 23 bits / 2^23 (C06 checks that)
                let w = o.next_u32();
                let r = (w >> 9) as f32 / 8_388_608.0;
                let mut sum = 0.0f32;
                let mut prescribed = None;
                for t in targets.iter() {
                    sum += t.1;
                    if r < sum {
                        prescribed = Some(t.0);
                        break;
                    }
                }
                self.stats.draws_checked += 1;
                if prescribed != next {
                    return Err(format!(
                        "{want}: sampled target: the draw {r} (word {w:#010x}) over {:?} prescribes {prescribed:?}, the framework took {next:?}",
                        targets.iter().map(|t| (t.0, t.1)).collect::<Vec<_>>()
                    ));
                }
            }
        }
        let Some(next) = next else {
            if targets.is_empty() {
                self.stats.no_transition_declared += 1;
            } else {
                if !f32_sum_below_one(targets) {
                    return Err(format!("{want}: no transition taken although the probabilities sum to 1"));
                }
                self.stats.sampled_none += 1;
            }
            return Ok(false);
        };
        if !targets.iter().any(|t| t.0 == next) {
            return Err(format!("{want}: moved to {next}, not a declared target of state {cur_state}"));
        }
        if next == STATE_END {
            self.rt[mi].state = STATE_END;
            self.stats.to_end += 1;
            return Ok(true);
        }
        if next == STATE_SIGNAL {
            self.stats.to_signal += 1;
            self.pending = match self.pending {
                None => Some(Some(mi)),
                Some(Some(x)) if x == mi => Some(Some(mi)),
                _ => Some(None),
            };
            return Ok(false);
        }
        let changed_here = next != cur_state;
        if changed_here {
            self.stats.state_change += 1;
            self.rt[mi].state = next;
            let limit = match cur.next("Limit")? {
                Step::Limit { machine, limit } if *machine == mi => *limit,
                other => return Err(format!("{want}: entering state {next}: expected Limit, log has {other:?}")),
            };
            check_limit(&self.machines[mi].states[next].action, limit, false)
                .map_err(|e| format!("{want}: entering state {next}: {e}"))?;
            self.rt[mi].limit = limit;
            self.stats.limit_sampled += 1;
        } else {
            self.stats.self_transition += 1;
        }
        let verdict = self.limits_verdict(mi);
        let (allow, cz_changed) = self.update_counters(mi, cur)?;
        if allow && verdict {
            match cur.next("Scheduled")? {
                Step::Scheduled { machine, state } if *machine == mi && *state == next => {}
                other => return Err(format!("{want}: entered state {next} whose action is allowed: expected Scheduled, log has {other:?}")),
            }
            self.slots[mi] = Some(next);
            self.stats.scheduled += 1;
        } else if !verdict && self.machines[mi].states[next].action.is_some() {
            self.stats.denied_by_limits += 1;
        }
        Ok(changed_here || cz_changed)
    }

    /// R5. Returns (may the entered state's action be scheduled, did CounterZero change state).
    fn update_counters(&mut self, mi: usize, cur: &mut Cursor<'_>) -> Result<(bool, bool), String> {
        let st = self.rt[mi].state;
        let spec = self.machines[mi].states[st].counter;
        let old_a = self.rt[mi].counter_a;
        let old_b = self.rt[mi].counter_b;
        let mut zeroed = false;
        for (is_b, c) in [(false, spec.0), (true, spec.1)] {
            let Some(c) = c else { continue };
            let v = match cur.next("CounterOperand")? {
                Step::CounterOperand { machine, counter_b, value } if *machine == mi && *counter_b == is_b => *value,
                other => return Err(format!("counter update of machine {mi}: expected CounterOperand(b={is_b}), log has {other:?}")),
            };
            let other_old = if is_b { old_a } else { old_b };
            check_operand(&c, v, other_old).map_err(|e| format!("counter {} of machine {mi}: {e}", if is_b { "B" } else { "A" }))?;
            if c.copy {
                self.stats.counter_copy += 1;
            }
            let old = if is_b { old_b } else { old_a };
            let new = match c.operation {
                Operation::Increment => {
                    if old.checked_add(v).is_none() {
                        self.stats.counter_saturated_hi += 1;
                    }
                    old.saturating_add(v)
                }
                Operation::Decrement => {
                    if v > old {
                        self.stats.counter_saturated_lo += 1;
                    }
                    old.saturating_sub(v)
                }
                Operation::Set => v,
            };
            self.stats.counter_updates += 1;
            if is_b {
                self.rt[mi].counter_b = new;
            } else {
                self.rt[mi].counter_a = new;
            }
            if old != 0 && new == 0 {
                let permit = if is_b { &mut self.permits[mi].1 } else { &mut self.permits[mi].0 };
                if !*permit {
                    *permit = true;
                    zeroed = true;
                } else {
                    self.stats.counter_zero_no_permit += 1;
                }
            }
        }
        if zeroed {
            self.stats.counter_zero += 1;
            let pending = self.slots[mi].take();
            let changed = self.deliver(mi, Event::CounterZero, cur)?;
            let scheduled = self.slots[mi].is_some();
            if !scheduled {
                self.slots[mi] = pending;
            } else {
                self.stats.counter_zero_took_precedence += 1;
            }
            return Ok((!scheduled, changed));
        }
        Ok((true, false))
    }

    /// R6–R8 for the action of the machine's current state, in the framework's arithmetic (f64
    /// division of the integer counts; microsecond integers for time).
    fn limits_verdict(&mut self, mi: usize) -> bool {
        let m = &self.machines[mi];
        let r = &self.rt[mi];
        let Some(a) = &m.states[r.state].action else {
            return false;
        };
        match a {
            Action::Cancel { .. } => true,
            Action::UpdateTimer { .. } => r.limit > 0,
            Action::SendPadding { .. } => {
                if r.padding_sent < m.allowed_padding_packets {
                    self.stats.allowed_by_budget += 1;
                    return r.limit > 0;
                }
                if m.max_padding_frac > 0.0 {
                    let total = r.normal_sent + r.padding_sent;
                    if total > 0 && r.padding_sent as f64 / total as f64 >= m.max_padding_frac {
                        self.stats.denied_padding_budget += 1;
                        return false;
                    }
                }
                if self.pf > 0.0 {
                    let total = self.normal + self.padding;
                    if total > 0 && self.padding as f64 / total as f64 >= self.pf {
                        self.stats.denied_padding_budget += 1;
                        return false;
                    }
                }
                r.limit > 0
            }
            Action::BlockOutgoing { replace, .. } => {
                if *replace && self.block_active {
                    self.stats.allowed_replace_active += 1;
                    return r.limit > 0;
                }
                let mut mb = r.blocked;
                let mut gb = self.blocked;
                if self.block_active {
                    let ongoing = self.now.saturating_sub(self.block_started);
                    mb = mb.saturating_add(ongoing);
                    gb = gb.saturating_add(ongoing);
                }
                if mb < m.allowed_blocked_microsec {
                    self.stats.allowed_by_budget += 1;
                    return r.limit > 0;
                }
                let elapsed = self.now.saturating_sub(self.start);
                if m.max_blocking_frac > 0.0 && mb as f64 / elapsed as f64 >= m.max_blocking_frac {
                    self.stats.denied_blocking_budget += 1;
                    return false;
                }
                if self.bf > 0.0 && gb as f64 / elapsed as f64 >= self.bf {
                    self.stats.denied_blocking_budget += 1;
                    return false;
                }
                r.limit > 0
            }
        }
    }

    pub fn compare_snapshot(&self, s: &Snapshot<VClock>) -> Result<(), String> {
        if s.machines.len() != self.rt.len() {
            return Err("snapshot has a different number of machines".into());
        }
        for (mi, (a, b)) in s.machines.iter().zip(self.rt.iter()).enumerate() {
            let got = RefMachine {
                state: a.current_state,
                limit: a.state_limit,
                padding_sent: a.padding_sent,
                normal_sent: a.normal_sent,
                blocked: a.blocking_duration.0,
                counter_a: a.counter_a,
                counter_b: a.counter_b,
            };
            if &got != b {
                return Err(format!("state of machine {mi} after the call is {got:?}, semantics prescribes {b:?}"));
            }
        }
        let got = (
            s.current_time.0,
            s.normal_sent_packets,
            s.padding_sent_packets,
            s.blocking_duration.0,
            s.blocking_active,
            s.blocking_started.0,
            s.signal_pending,
        );
        let want = (self.now, self.normal, self.padding, self.blocked, self.block_active, self.block_started, self.pending);
        if got != want {
            return Err(format!(
                "framework state (time, normal, padding, blocked, active, started, pending signal) after the call is {got:?}, semantics prescribes {want:?}"
            ));
        }
        Ok(())
    }

    pub fn state_key(&self) -> u64 {
        crate::util::hash_of(&(
            &self.rt,
            self.normal,
            self.padding,
            self.blocked,
            self.block_active,
            self.block_started.wrapping_sub(self.start),
            self.pending,
        ))
    }
}

pub fn has_limit(a: &Action) -> bool {
    match a {
        Action::SendPadding { limit, .. } | Action::BlockOutgoing { limit, .. } | Action::UpdateTimer { limit, .. } => limit.is_some(),
        Action::Cancel { .. } => false,
    }
}

pub fn limit_dist(a: &Action) -> Option<&Dist> {
    match a {
        Action::SendPadding { limit, .. } | Action::BlockOutgoing { limit, .. } | Action::UpdateTimer { limit, .. } => limit.as_ref(),
        Action::Cancel { .. } => None,
    }
}

/// The limit observed on entering a state (or at construction).
fn check_limit(action: &Option<Action>, limit: u64, at_construction: bool) -> Result<(), String> {
    match action.as_ref().and_then(limit_dist) {
        Some(d) => {
            if in_support(d, limit, f64::INFINITY, true) {
                Ok(())
            } else {
                Err(format!("sampled limit {limit} outside the support {:?} of {d:?}", support(d)))
            }
        }
        None => {
            // no limit: unlimited. A machine starting in a state without action has a limit that can
            // never matter; both representations are accepted there.
            if limit == u64::MAX || (at_construction && action.is_none() && limit == 0) {
                Ok(())
            } else {
                Err(format!("limit {limit} for a state without limit (expected unlimited)"))
            }
        }
    }
}

fn check_operand(c: &Counter, v: u64, other_old: u64) -> Result<(), String> {
    if c.copy {
        if v != other_old {
            return Err(format!("copy operand {v}, the other counter held {other_old} before the update"));
        }
        return Ok(());
    }
    match &c.dist {
        None => {
            if v != 1 {
                return Err(format!("unit operand expected, got {v}"));
            }
        }
        Some(d) => {
            if !in_support(d, v, f64::INFINITY, false) {
                return Err(format!("sampled operand {v} outside the support {:?} of {d:?}", support(d)));
            }
        }
    }
    Ok(())
}

/// R9/R13: a returned action against the defining state's action.
pub fn check_action(def: &Action, a: &Act) -> Result<(), String> {
    let (k, by, rp, tm) = shape_of(def);
    if (a.kind, a.bypass, a.replace, a.timer) != (k, by, rp, tm) {
        return Err(format!(
            "returned (kind {}, bypass {}, replace {}, timer {}) but the state defines (kind {k}, bypass {by}, replace {rp}, timer {tm})",
            a.kind, a.bypass, a.replace, a.timer
        ));
    }
    match def {
        Action::Cancel { .. } => {}
        Action::SendPadding { timeout, .. } => {
            if !in_support(timeout, a.timeout, DAY_US, true) {
                return Err(format!("timeout {} outside the support of {timeout:?}", a.timeout));
            }
        }
        Action::BlockOutgoing { timeout, duration, .. } => {
            if !in_support(timeout, a.timeout, DAY_US, true) {
                return Err(format!("timeout {} outside the support of {timeout:?}", a.timeout));
            }
            if !in_support(duration, a.duration, DAY_US, true) {
                return Err(format!("duration {} outside the support of {duration:?}", a.duration));
            }
        }
        Action::UpdateTimer { duration, .. } => {
            if !in_support(duration, a.duration, DAY_US, true) {
                return Err(format!("duration {} outside the support of {duration:?}", a.duration));
            }
        }
    }
    Ok(())
}
