//! Driving frameworks: flattened actions, adaptive event generation.

use maybenot::action::{Action, Timer};
use maybenot::event::TriggerEvent;
use maybenot::{Framework, Machine, MachineId, TriggerAction};

use crate::gen::{gen_event, gen_step, HCfg};
use crate::util::{Pick, ScriptRng, VClock, VDur, Xo};

pub type FwR<'a, R> = Framework<&'a [Machine], R, VClock>;
pub type Fw<'a> = FwR<'a, ScriptRng>;

/// A returned action, flattened. kind: 0 cancel, 1 padding, 2 blocking, 3 timer.
#[derive(Clone, Debug, PartialEq, Eq, Hash)]
pub struct Act {
    pub machine: usize,
    pub kind: u8,
    pub bypass: bool,
    pub replace: bool,
    /// 0 action, 1 internal, 2 all (cancel only)
    pub timer: u8,
    pub timeout: u64,
    pub duration: u64,
}

pub fn timer_code(t: Timer) -> u8 {
    match t {
        Timer::Action => 0,
        Timer::Internal => 1,
        Timer::All => 2,
    }
}

pub fn act_of(a: &TriggerAction<VClock>) -> Act {
    match a {
        TriggerAction::Cancel { machine, timer } => Act {
            machine: machine.into_raw(),
            kind: 0,
            bypass: false,
            replace: false,
            timer: timer_code(*timer),
            timeout: 0,
            duration: 0,
        },
        TriggerAction::SendPadding {
            timeout,
            bypass,
            replace,
            machine,
        } => Act {
            machine: machine.into_raw(),
            kind: 1,
            bypass: *bypass,
            replace: *replace,
            timer: 0,
            timeout: timeout.0,
            duration: 0,
        },
        TriggerAction::BlockOutgoing {
            timeout,
            duration,
            bypass,
            replace,
            machine,
        } => Act {
            machine: machine.into_raw(),
            kind: 2,
            bypass: *bypass,
            replace: *replace,
            timer: 0,
            timeout: timeout.0,
            duration: duration.0,
        },
        TriggerAction::UpdateTimer {
            duration,
            replace,
            machine,
        } => Act {
            machine: machine.into_raw(),
            kind: 3,
            bypass: false,
            replace: *replace,
            timer: 0,
            timeout: 0,
            duration: duration.0,
        },
    }
}

/// Kind and flags of a machine-defined action in the same flattened form (timeout/duration 0).
pub fn shape_of(a: &Action) -> (u8, bool, bool, u8) {
    match a {
        Action::Cancel { timer } => (0, false, false, timer_code(*timer)),
        Action::SendPadding { bypass, replace, .. } => (1, *bypass, *replace, 0),
        Action::BlockOutgoing { bypass, replace, .. } => (2, *bypass, *replace, 0),
        Action::UpdateTimer { replace, .. } => (3, false, *replace, 0),
    }
}

pub fn trigger<R: rand_core::RngCore>(fw: &mut FwR<'_, R>, events: &[TriggerEvent], now: VClock) -> Vec<Act> {
    // a runaway call becomes a panic of the hook instead of exhausting memory (the bound itself is C01's)
    fw.verif_set_budget(64 * (events.len() + 1) * (fw.num_machines() + 1));
    fw.trigger_events(events, now).map(act_of).collect()
}

pub fn apply_step(now: VClock, step: i64) -> VClock {
    if step >= 0 {
        VClock(now.0.saturating_add(step as u64))
    } else {
        VClock(now.0.saturating_sub((-step) as u64))
    }
}

/// Adaptive event source: biased towards completing the actions that were just returned, so
/// limits, budgets and blocking accounting are actually exercised.
#[derive(Clone, Debug, Default)]
pub struct EvGen {
    pub pending: Vec<(u8, usize)>,
    pub block_open: bool,
    pub timers_open: Vec<usize>,
}

impl EvGen {
    pub fn observe(&mut self, acts: &[Act]) {
        for a in acts {
            if a.kind >= 1 {
                self.pending.retain(|p| p.1 != a.machine || (p.0 == 3) != (a.kind == 3));
                self.pending.push((a.kind, a.machine));
            }
        }
        if self.pending.len() > 16 {
            self.pending.drain(0..8);
        }
    }

    pub fn next_event(&mut self, r: &mut Xo, n: usize, unknown: bool) -> TriggerEvent {
        if !self.pending.is_empty() && r.chance(9, 16) {
            let i = r.below(self.pending.len() as u64) as usize;
            let (k, m) = if r.chance(3, 4) {
                self.pending.swap_remove(i)
            } else {
                self.pending[i]
            };
            let machine = MachineId::from_raw(m);
            return match k {
                1 => TriggerEvent::PaddingSent { machine },
                2 => {
                    self.block_open = true;
                    TriggerEvent::BlockingBegin { machine }
                }
                _ => {
                    self.timers_open.push(m);
                    TriggerEvent::TimerBegin { machine }
                }
            };
        }
        if self.block_open && r.chance(1, 4) {
            self.block_open = false;
            return TriggerEvent::BlockingEnd;
        }
        if !self.timers_open.is_empty() && r.chance(1, 6) {
            let i = r.below(self.timers_open.len() as u64) as usize;
            let m = self.timers_open.swap_remove(i);
            return TriggerEvent::TimerEnd {
                machine: MachineId::from_raw(m),
            };
        }
        let e = gen_event(r, n, unknown);
        if let TriggerEvent::BlockingBegin { .. } = e {
            self.block_open = true;
        }
        e
    }

    pub fn next_batch(&mut self, r: &mut Xo, n: usize, h: &HCfg) -> Vec<TriggerEvent> {
        let len = if h.max_batch <= 1 {
            1
        } else {
            match r.below(8) {
                0 if h.empty => 0,
                0..=4 => 1,
                5 | 6 => r.range(2, 3.min(h.max_batch as u64)) as usize,
                _ => r.range(1, h.max_batch as u64) as usize,
            }
        };
        (0..len).map(|_| self.next_event(r, n, h.unknown_ids)).collect()
    }
}

pub fn next_time(r: &mut Xo, now: VClock, h: &HCfg) -> (VClock, i64) {
    let s = gen_step(r, h);
    (apply_step(now, s), s)
}

pub fn vdur(x: u64) -> VDur {
    VDur(x)
}

pub fn machines_json(ms: &[Machine]) -> serde_json::Value {
    serde_json::Value::Array(ms.iter().map(|m| serde_json::Value::String(m.serialize())).collect())
}
