//! Monitor-transparency stage: concrete cases and what the hooked build (cargo feature `verif` on, the
//! build every monitor observes) returned for them, written as JSON lines. `/verif/hookless` is linked
//! against the default build of the same working tree (feature off), re-executes every case from the
//! file and compares what it gets with what is recorded here. Every number that must survive the file
//! exactly (fractions) is written as its bit pattern.

use std::io::Write;
use std::panic::{catch_unwind, AssertUnwindSafe};

use maybenot::event::TriggerEvent;
use maybenot::{Framework, Machine};
use maybenot_simulator::{parse_trace, sim, sim_advanced};
use serde_json::{json, Value};

use crate::drive::{act_of, next_time, EvGen};
use crate::gen::{gen_machine, HCfg, MCfg};
use crate::props::sim::{gen_case, SimCase};
use crate::util::{case_seed, xo, Pick, VClock, Xo};

fn ev_code(e: &TriggerEvent) -> (u8, u64) {
    match e {
        TriggerEvent::NormalRecv => (0, 0),
        TriggerEvent::PaddingRecv => (1, 0),
        TriggerEvent::TunnelRecv => (2, 0),
        TriggerEvent::NormalSent => (3, 0),
        TriggerEvent::PaddingSent { machine } => (4, machine.into_raw() as u64),
        TriggerEvent::TunnelSent => (5, 0),
        TriggerEvent::BlockingBegin { machine } => (6, machine.into_raw() as u64),
        TriggerEvent::BlockingEnd => (7, 0),
        TriggerEvent::TimerBegin { machine } => (8, machine.into_raw() as u64),
        TriggerEvent::TimerEnd { machine } => (9, machine.into_raw() as u64),
    }
}

fn fw_case(r: &mut Xo) -> Value {
    let n = r.range(1, 4) as usize;
    let machines: Vec<Machine> = (0..n)
        .map(|_| {
            let mut cfg = match r.below(3) {
                0 => MCfg::det(),
                _ => MCfg::wild(),
            };
            // finding K4 (Binomial sampling can panic or hang inside rand_distr) is C13's; keep it out of here
            cfg.allow_binomial = false;
            gen_machine(r, &cfg)
        })
        .collect();
    let pf = *r.pick(&[0.0, 0.0, 0.25, 1.0 / 3.0, 0.5, 1.0, 0.7, 1.0e-9]);
    let bf = *r.pick(&[0.0, 0.0, 0.5, 0.1, 1.0]);
    let rng_seed = rand_core::RngCore::next_u64(r);
    let start = VClock(1 << 30);
    let h = HCfg {
        calls: r.range(10, 160) as usize,
        max_batch: 4,
        empty: true,
        backwards: true,
        huge_steps: false,
        unknown_ids: true,
    };
    let mut calls: Vec<Value> = vec![];
    let mut outs: Vec<Value> = vec![];
    let res = catch_unwind(AssertUnwindSafe(|| {
        let mut fw = match Framework::new(&machines[..], pf, bf, start, xo(rng_seed)) {
            Ok(fw) => fw,
            Err(e) => {
                outs.push(json!(format!("refused: {e}")));
                return;
            }
        };
        fw.verif_set_budget(1 << 20);
        let mut evs = EvGen::default();
        let mut now = start;
        for _ in 0..h.calls {
            let (t, _) = next_time(r, now, &h);
            now = t;
            let batch = evs.next_batch(r, n, &h);
            calls.push(json!({"t": now.0, "ev": batch.iter().map(|e| { let (c, m) = ev_code(e); json!([c, m]) }).collect::<Vec<_>>()}));
            let (shown, acts): (Vec<String>, Vec<_>) = fw.trigger_events(&batch, now).map(|a| (format!("{a:?}"), act_of(a))).unzip();
            evs.observe(&acts);
            outs.push(json!(shown));
        }
    }));
    if res.is_err() {
        let _ = crate::take_panic();
        outs.push(json!("panic"));
    }
    json!({
        "kind": "fw",
        "machines": machines.iter().map(|m| m.serialize()).collect::<Vec<_>>(),
        "pf_bits": pf.to_bits(), "bf_bits": bf.to_bits(), "rng_seed": rng_seed, "start": start.0,
        "calls": calls, "out": outs,
    })
}

fn sim_case(r: &mut Xo) -> Value {
    let mut c: SimCase = gen_case(r, 40, &|_, c| c.allow_binomial = false);
    c.max_trace_length = *r.pick(&[50usize, 200, 1000]);
    c.only_client = r.chance(1, 4);
    c.only_network = r.chance(1, 4);
    // sim() takes no seed (its machines draw from entropy) and has no iteration bound: through that entry
    // point only runs without machines are comparable
    c.use_sim_fn = !c.only_client && r.chance(1, 8);
    if c.use_sim_fn {
        c.client.clear();
        c.server.clear();
    }
    if r.chance(1, 6) {
        c.trigger_delay_us = *r.pick(&[1u64, 5, 100, 2000]);
    }
    let trace = c.trace_string();
    let network = c.network();
    let args = c.args();
    let res = catch_unwind(AssertUnwindSafe(|| {
        let mut sq = parse_trace(&trace, network);
        let base = sq.get_first_time().expect("non-empty trace");
        let raw = if c.use_sim_fn {
            sim(&c.client, &c.server, &mut sq, network.delay, c.max_trace_length, c.only_network)
        } else {
            sim_advanced(&c.client, &c.server, &mut sq, &args)
        };
        let _ = maybenot_simulator::verif::take_fire_log();
        let _ = maybenot_simulator::verif::take_action_log();
        raw.iter()
            .map(|e| {
                let t: i128 = if e.time >= base { (e.time - base).as_nanos() as i128 } else { -((base - e.time).as_nanos() as i128) };
                format!("{t} {} {:?} {} {}", e.client, e.event, e.contains_padding, e.integration_delay.as_nanos())
            })
            .collect::<Vec<String>>()
    }));
    let out = match res {
        Ok(v) => json!(v),
        Err(_) => {
            let _ = crate::take_panic();
            let _ = maybenot_simulator::verif::take_fire_log();
            let _ = maybenot_simulator::verif::take_action_log();
            json!("panic")
        }
    };
    json!({
        "kind": "sim",
        "trace": trace,
        "delay_ns": c.delay_ns, "pps": c.pps,
        "client": c.client.iter().map(|m| m.serialize()).collect::<Vec<_>>(),
        "server": c.server.iter().map(|m| m.serialize()).collect::<Vec<_>>(),
        "max_iter": c.max_iter, "max_trace_length": c.max_trace_length, "cont": c.cont,
        "only_client": c.only_client, "only_network": c.only_network,
        "frac_bits": c.fracs.iter().map(|f| f.to_bits()).collect::<Vec<_>>(),
        "seed": c.seed, "use_sim_fn": c.use_sim_fn, "trigger_delay_us": c.trigger_delay_us,
        "out": out,
    })
}

/// `kind`: "fw" or "sim". Cases `0..cases` of the given seed, one JSON object per line.
pub fn dump(kind: &str, seed: u64, cases: u64, path: &str) {
    crate::install_panic_hook();
    let mut f = std::io::BufWriter::new(std::fs::File::create(path).expect("create the case file"));
    for k in 0..cases {
        let mut r = xo(case_seed(seed, if kind == "fw" { "hooksoff-fw" } else { "hooksoff-sim" }, 0, k));
        let mut v = if kind == "fw" { fw_case(&mut r) } else { sim_case(&mut r) };
        v["case"] = json!(k);
        writeln!(f, "{v}").expect("write the case file");
    }
    f.flush().expect("write the case file");
    println!("HOOKSOFF-DUMP-OK kind={kind} cases={cases}");
}
