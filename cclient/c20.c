/* C client for property C20: replays a script produced by the Rust harness (`vh c20-script`)
 * through the C API as declared in crates/maybenot-ffi/maybenot.h and compares every field of
 * every action, as C sees it through the header, with the values the Rust framework returned.
 * Built with -fsanitize=address,undefined (exact-size output buffers: one slot too many is an
 * immediate report) and, for valgrind, without sanitizers.
 *
 * Script lines:
 *   S <n_machines> <pf hex-double> <bf hex-double> <expected start rc>
 *   M <machine string>                 (n_machines lines)
 *   B <n_events> <n_expected_actions>
 *   E <event type> <machine>           (n_events lines)
 *   A <kind> <machine> <bypass> <replace> <timer> <tsecs> <tnanos> <dsecs> <dnanos>
 *   X                                  end of session
 */
#include <inttypes.h>
#include <stdio.h>
#include <stdlib.h>
#include <string.h>

#include "maybenot.h"

static long mismatches = 0, sessions = 0, batches = 0, actions = 0, faults = 0;

static void mismatch(const char *what, long session, long batch) {
  printf("MISMATCH %s session=%ld batch=%ld\n", what, session, batch);
  mismatches++;
}

static char *read_line(FILE *f) {
  static char *buf = NULL;
  static size_t cap = 0;
  ssize_t n = getline(&buf, &cap, f);
  if (n < 0) return NULL;
  while (n > 0 && (buf[n - 1] == '\n' || buf[n - 1] == '\r')) buf[--n] = 0;
  return buf;
}

static void fault_injection(const char *machines, uintptr_t n) {
  MaybenotFramework *fw = NULL;
  /* null out pointer */
  if (maybenot_start(machines, 0.0, 0.0, NULL) != MaybenotResult_NullPointer) mismatch("start(out=NULL) code", sessions, -1);
  /* not UTF-8 */
  if (maybenot_start("02\xff\xfe", 0.0, 0.0, &fw) != MaybenotResult_MachineStringNotUtf8) mismatch("start(non-utf8) code", sessions, -1);
  /* invalid machine string */
  if (maybenot_start("02notamachine", 0.0, 0.0, &fw) != MaybenotResult_InvalidMachineString) mismatch("start(invalid machine) code", sessions, -1);
  /* invalid fractions */
  if (maybenot_start(machines, -0.5, 0.0, &fw) != MaybenotResult_StartFramework) mismatch("start(pf=-0.5) code", sessions, -1);
  if (maybenot_start(machines, 0.0, 1.5, &fw) != MaybenotResult_StartFramework) mismatch("start(bf=1.5) code", sessions, -1);
  if (maybenot_start(machines, 0.0 / 0.0 != 0.0 / 0.0 ? (0.0 / 0.0) : 2.0, 0.0, &fw) != MaybenotResult_StartFramework) mismatch("start(pf=NaN) code", sessions, -1);
  faults += 6;
  if (maybenot_start(machines, 0.0, 0.0, &fw) == MaybenotResult_Ok) {
    MaybenotEvent ev = {MaybenotEventType_NormalSent, 0};
    MaybenotAction *out = malloc(sizeof(MaybenotAction) * (n ? n : 1));
    uintptr_t cnt = 0;
    if (maybenot_on_events(NULL, &ev, 1, out, &cnt) != MaybenotResult_NullPointer) mismatch("on_events(this=NULL) code", sessions, -1);
    if (maybenot_on_events(fw, NULL, 1, out, &cnt) != MaybenotResult_NullPointer) mismatch("on_events(events=NULL) code", sessions, -1);
    if (maybenot_on_events(fw, &ev, 1, NULL, &cnt) != MaybenotResult_NullPointer) mismatch("on_events(actions=NULL) code", sessions, -1);
    if (maybenot_on_events(fw, &ev, 1, out, NULL) != MaybenotResult_NullPointer) mismatch("on_events(count=NULL) code", sessions, -1);
    if (maybenot_num_machines(NULL) != 0) mismatch("num_machines(NULL)", sessions, -1);
    faults += 5;
    free(out);
    maybenot_stop(fw);
  }
}

int main(int argc, char **argv) {
  if (argc < 2) {
    fprintf(stderr, "usage: c20 <script>\n");
    return 2;
  }
  FILE *f = fopen(argv[1], "r");
  if (!f) {
    perror("open script");
    return 2;
  }
  if (strncmp(maybenot_version(), "maybenot-ffi/", 13) != 0) mismatch("version string", 0, 0);
  char *line;
  while ((line = read_line(f))) {
    if (line[0] != 'S') continue;
    unsigned long n;
    double pf, bf;
    unsigned expect_rc;
    if (sscanf(line, "S %lu %la %la %u", &n, &pf, &bf, &expect_rc) != 4) {
      fprintf(stderr, "bad S line: %s\n", line);
      return 2;
    }
    sessions++;
    /* machine strings, LF separated */
    size_t cap = 16, len = 0;
    char *machines = malloc(cap);
    machines[0] = 0;
    for (unsigned long i = 0; i < n; i++) {
      line = read_line(f);
      if (!line || line[0] != 'M') {
        fprintf(stderr, "expected M line\n");
        return 2;
      }
      size_t l = strlen(line + 2);
      while (len + l + 2 > cap) machines = realloc(machines, cap *= 2);
      if (i) machines[len++] = '\n';
      memcpy(machines + len, line + 2, l);
      len += l;
      machines[len] = 0;
    }
    MaybenotFramework *fw = NULL;
    MaybenotResult rc = maybenot_start(machines, pf, bf, &fw);
    if (rc != expect_rc) mismatch("start result", sessions, -1);
    long b = 0;
    if (rc == MaybenotResult_Ok) {
      if (maybenot_num_machines(fw) != n) mismatch("num_machines", sessions, -1);
    }
    while ((line = read_line(f)) && line[0] != 'X') {
      if (line[0] != 'B') continue;
      unsigned long ne, na;
      sscanf(line, "B %lu %lu", &ne, &na);
      MaybenotEvent *ev = malloc(sizeof(MaybenotEvent) * (ne ? ne : 1));
      for (unsigned long i = 0; i < ne; i++) {
        line = read_line(f);
        unsigned t;
        unsigned long long m;
        sscanf(line, "E %u %llu", &t, &m);
        ev[i].event_type = t;
        ev[i].machine = (uintptr_t)m;
      }
      /* exactly num_machines slots: a write to slot n is an ASan / memcheck report */
      MaybenotAction *out = malloc(sizeof(MaybenotAction) * (n ? n : 1));
      memset(out, 0xA5, sizeof(MaybenotAction) * (n ? n : 1));
      uintptr_t cnt = (uintptr_t)-1;
      if (rc == MaybenotResult_Ok) {
        MaybenotResult r2 = maybenot_on_events(fw, ev, ne, out, &cnt);
        if (r2 != MaybenotResult_Ok) mismatch("on_events result", sessions, b);
        if (cnt != na) mismatch("action count", sessions, b);
        if (cnt > n) mismatch("count exceeds num_machines", sessions, b);
        batches++;
      }
      for (unsigned long i = 0; i < na; i++) {
        line = read_line(f);
        unsigned kind, bypass, replace, timer;
        unsigned long long machine, ts, tn, ds, dn;
        sscanf(line, "A %u %llu %u %u %u %llu %llu %llu %llu", &kind, &machine, &bypass, &replace, &timer, &ts, &tn, &ds, &dn);
        if (rc != MaybenotResult_Ok || i >= cnt || i >= n) continue;
        const MaybenotAction *a = &out[i];
        int ok = a->tag == kind;
        if (ok) switch (a->tag) {
            case MaybenotAction_Cancel:
              ok = a->cancel.machine == machine && a->cancel.timer == timer;
              break;
            case MaybenotAction_SendPadding:
              ok = a->send_padding.machine == machine && a->send_padding.timeout.secs == ts && a->send_padding.timeout.nanos == tn &&
                   a->send_padding.replace == (replace != 0) && a->send_padding.bypass == (bypass != 0);
              break;
            case MaybenotAction_BlockOutgoing:
              ok = a->block_outgoing.machine == machine && a->block_outgoing.timeout.secs == ts && a->block_outgoing.timeout.nanos == tn &&
                   a->block_outgoing.replace == (replace != 0) && a->block_outgoing.bypass == (bypass != 0) &&
                   a->block_outgoing.duration.secs == ds && a->block_outgoing.duration.nanos == dn;
              break;
            case MaybenotAction_UpdateTimer:
              ok = a->update_timer.machine == machine && a->update_timer.duration.secs == ds && a->update_timer.duration.nanos == dn &&
                   a->update_timer.replace == (replace != 0);
              break;
            default:
              ok = 0;
          }
        if (!ok) {
          mismatch("action fields", sessions, b);
          printf("  expected kind=%u machine=%llu bypass=%u replace=%u timer=%u timeout=%llu.%09llu duration=%llu.%09llu, tag seen by C: %u\n", kind, machine,
                 bypass, replace, timer, ts, tn, ds, dn, a->tag);
        }
        actions++;
      }
      free(out);
      free(ev);
      b++;
    }
    if (rc == MaybenotResult_Ok) maybenot_stop(fw);
    if (sessions % 16 == 1) fault_injection(machines, n);
    free(machines);
  }
  fclose(f);
  printf("CCLIENT-DONE sessions=%ld batches=%ld actions=%ld faults=%ld mismatches=%ld sizeof(MaybenotAction)=%zu\n", sessions, batches, actions, faults,
         mismatches, sizeof(MaybenotAction));
  return mismatches ? 1 : 0;
}
