//! Re-executes the cases the hooked harness dumped (`vh hooksoff-fw|hooksoff-sim`) against the
//! *default* build of the working tree (cargo feature `verif` off) and compares the answers.
//!
//! usage: hookless <case file>...
//! prints one `DIFF {json}` line per case whose answers differ and a final `HOOKLESS-RESULT {json}`.

use std::io::BufRead;
use std::ops::AddAssign;
use std::panic::{catch_unwind, AssertUnwindSafe};
use std::str::FromStr;
use std::time::Duration;

use maybenot::event::TriggerEvent;
use maybenot::{Framework, Machine, MachineId};
use maybenot_simulator::integration::{BinDist, Integration};
use maybenot_simulator::network::Network;
use maybenot_simulator::{parse_trace, sim, sim_advanced, SimulatorArgs};
use rand_core::SeedableRng;
use rand_xoshiro::Xoshiro256StarStar;
use serde_json::{json, Value};

// the harness's virtual clock, copied: microseconds, saturating
#[derive(Clone, Copy, Debug, PartialEq, Eq, PartialOrd, Ord, Hash, Default)]
pub struct VClock(pub u64);
#[derive(Clone, Copy, Debug, PartialEq, Eq, PartialOrd, Ord, Hash, Default)]
pub struct VDur(pub u64);
impl AddAssign for VDur {
    fn add_assign(&mut self, rhs: Self) {
        self.0 = self.0.saturating_add(rhs.0);
    }
}
impl maybenot::time::Duration for VDur {
    fn zero() -> Self {
        VDur(0)
    }
    fn from_micros(micros: u64) -> Self {
        VDur(micros)
    }
    fn is_zero(&self) -> bool {
        self.0 == 0
    }
    fn div_duration_f64(self, rhs: Self) -> f64 {
        self.0 as f64 / rhs.0 as f64
    }
}
impl maybenot::time::Instant for VClock {
    type Duration = VDur;
    fn saturating_duration_since(&self, earlier: Self) -> VDur {
        VDur(self.0.saturating_sub(earlier.0))
    }
}

fn machines(v: &Value) -> Vec<Machine> {
    v.as_array().unwrap().iter().map(|s| Machine::from_str(s.as_str().unwrap()).expect("dumped machine parses")).collect()
}

fn event(c: u64, m: u64) -> TriggerEvent {
    let machine = MachineId::from_raw(m as usize);
    match c {
        0 => TriggerEvent::NormalRecv,
        1 => TriggerEvent::PaddingRecv,
        2 => TriggerEvent::TunnelRecv,
        3 => TriggerEvent::NormalSent,
        4 => TriggerEvent::PaddingSent { machine },
        5 => TriggerEvent::TunnelSent,
        6 => TriggerEvent::BlockingBegin { machine },
        7 => TriggerEvent::BlockingEnd,
        8 => TriggerEvent::TimerBegin { machine },
        9 => TriggerEvent::TimerEnd { machine },
        _ => panic!("bad event code"),
    }
}

/// (answers, number of calls, number of actions)
fn run_fw(c: &Value) -> (Value, u64, u64) {
    let ms = machines(&c["machines"]);
    let pf = f64::from_bits(c["pf_bits"].as_u64().unwrap());
    let bf = f64::from_bits(c["bf_bits"].as_u64().unwrap());
    let start = VClock(c["start"].as_u64().unwrap());
    let rng = Xoshiro256StarStar::seed_from_u64(c["rng_seed"].as_u64().unwrap());
    let mut outs: Vec<Value> = vec![];
    let (mut calls, mut actions) = (0, 0);
    let res = catch_unwind(AssertUnwindSafe(|| {
        let mut fw = match Framework::new(&ms[..], pf, bf, start, rng) {
            Ok(fw) => fw,
            Err(e) => {
                outs.push(json!(format!("refused: {e}")));
                return;
            }
        };
        for call in c["calls"].as_array().unwrap() {
            let now = VClock(call["t"].as_u64().unwrap());
            let batch: Vec<TriggerEvent> = call["ev"].as_array().unwrap().iter().map(|e| event(e[0].as_u64().unwrap(), e[1].as_u64().unwrap())).collect();
            let shown: Vec<String> = fw.trigger_events(&batch, now).map(|a| format!("{a:?}")).collect();
            calls += 1;
            actions += shown.len() as u64;
            outs.push(json!(shown));
        }
    }));
    if res.is_err() {
        outs.push(json!("panic"));
    }
    (json!(outs), calls, actions)
}

/// (answers, number of events)
fn run_sim(c: &Value) -> (Value, u64) {
    let client = machines(&c["client"]);
    let server = machines(&c["server"]);
    let delay = Duration::from_nanos(c["delay_ns"].as_u64().unwrap());
    let pps = c["pps"].as_u64().map(|p| p as usize);
    let network = Network::new(delay, pps);
    let max_trace_length = c["max_trace_length"].as_u64().unwrap() as usize;
    let only_network = c["only_network"].as_bool().unwrap();
    let fr: Vec<f64> = c["frac_bits"].as_array().unwrap().iter().map(|b| f64::from_bits(b.as_u64().unwrap())).collect();
    let mut a = SimulatorArgs::new(network, max_trace_length, only_network);
    a.max_sim_iterations = c["max_iter"].as_u64().unwrap() as usize;
    a.continue_after_all_normal_packets_processed = c["cont"].as_bool().unwrap();
    a.only_client_events = c["only_client"].as_bool().unwrap();
    a.max_padding_frac_client = fr[0];
    a.max_blocking_frac_client = fr[1];
    a.max_padding_frac_server = fr[2];
    a.max_blocking_frac_server = fr[3];
    a.insecure_rng_seed = Some(c["seed"].as_u64().unwrap());
    let td = c["trigger_delay_us"].as_u64().unwrap();
    if td > 0 {
        let zero = || BinDist::new(r#"{"(0.0, 0.0)": 1.0}"#).unwrap();
        let ms = td as f64 / 1000.0;
        let integ = Integration {
            action_delay: zero(),
            reporting_delay: zero(),
            trigger_delay: BinDist::new(&format!(r#"{{"({ms:?}, {ms:?})": 1.0}}"#)).unwrap(),
        };
        a.client_integration = Some(integ.clone());
        a.server_integration = Some(integ);
    }
    let trace = c["trace"].as_str().unwrap();
    let use_sim_fn = c["use_sim_fn"].as_bool().unwrap();
    let res = catch_unwind(AssertUnwindSafe(|| {
        let mut sq = parse_trace(trace, network);
        let base = sq.get_first_time().expect("non-empty trace");
        let raw = if use_sim_fn {
            sim(&client, &server, &mut sq, network.delay, max_trace_length, only_network)
        } else {
            sim_advanced(&client, &server, &mut sq, &a)
        };
        raw.iter()
            .map(|e| {
                let t: i128 = if e.time >= base { (e.time - base).as_nanos() as i128 } else { -((base - e.time).as_nanos() as i128) };
                format!("{t} {} {:?} {} {}", e.client, e.event, e.contains_padding, e.integration_delay.as_nanos())
            })
            .collect::<Vec<String>>()
    }));
    match res {
        Ok(v) => {
            let n = v.len() as u64;
            (json!(v), n)
        }
        Err(_) => (json!("panic"), 0),
    }
}

fn first_difference(a: &Value, b: &Value) -> Value {
    match (a.as_array(), b.as_array()) {
        (Some(x), Some(y)) => {
            for i in 0..x.len().max(y.len()) {
                if x.get(i) != y.get(i) {
                    return json!({"index": i, "hooked_build": x.get(i), "default_build": y.get(i)});
                }
            }
            json!(null)
        }
        _ => json!({"hooked_build": a, "default_build": b}),
    }
}

fn main() {
    std::panic::set_hook(Box::new(|_| {}));
    let mut stats = std::collections::BTreeMap::<&str, u64>::new();
    let mut diffs = 0u64;
    for path in std::env::args().skip(1) {
        let f = std::io::BufReader::new(std::fs::File::open(&path).expect("open the case file"));
        for line in f.lines() {
            let c: Value = serde_json::from_str(&line.unwrap()).expect("case line is JSON");
            let kind = c["kind"].as_str().unwrap();
            let mine = if kind == "fw" {
                let (v, calls, actions) = run_fw(&c);
                *stats.entry("framework_cases_compared").or_default() += 1;
                *stats.entry("framework_calls_compared").or_default() += calls;
                *stats.entry("framework_actions_compared").or_default() += actions;
                v
            } else {
                let (v, n) = run_sim(&c);
                *stats.entry("simulations_compared").or_default() += 1;
                *stats.entry("simulator_events_compared").or_default() += n;
                v
            };
            if mine.as_str() == Some("panic") || mine.as_array().is_some_and(|a| a.last().and_then(|x| x.as_str()) == Some("panic")) {
                *stats.entry("cases_that_panic_in_both_builds_or_one").or_default() += 1;
            }
            if mine != c["out"] {
                diffs += 1;
                if diffs <= 5 {
                    let mut case = c.clone();
                    case.as_object_mut().unwrap().remove("out");
                    println!("DIFF {}", json!({"kind": kind, "case": c["case"], "first_difference": first_difference(&c["out"], &mine), "input": case}));
                }
            }
        }
    }
    println!("HOOKLESS-RESULT {}", json!({"differences": diffs, "stats": stats}));
}
